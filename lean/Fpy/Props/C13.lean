/-
C13 — Static analysis facts hold on every execution (layer 1: the pure transfer functions).

Value classes (`fpy2/analysis/value_class.py`): a flag `a : VC` denotes the set `γ a` of values
whose class (`classOf`: NaN, infinite, zero, finite non-zero) is one of its atoms.  Each transfer
function of the analysis is sound for the operation it abstracts on the number model
(`Float.__add__`, `Float.__mul__`, `__neg__`, `__abs__`, `ops.logb`, Min/Max selection, and the
rounding of EVERY context family through `Ctx.roundAtCore`), and every branch refinement of
`_implied` / `_implied_compare` is implied by the tested condition.

Union-find (`fpy2/utils/unionfind.py`, the basis of TypeInfer unification, ArraySizeInfer size
variables, ReachingDefs phi unification and Alias region merging): see the second half.

Layer 3 (type shapes, static sizes, constants, reaching definitions, aliasing of the real analyses
against traced executions) is runtime monitoring in `harness/c13.py`, not proof.
-/
import Fpy.Proof.VClassRound
import Fpy.Proof.VClassOps
import Fpy.Proof.VClassReal
import Fpy.Proof.UnionFind
namespace Fpy.Props.C13
open Fpy Fpy.C13 Fpy.C13.VC

/-! ## Value classes: exact operations -/

/-- `_exact_add` is sound for `Float.__add__` (all specials by the IEEE rules the class implements:
`inf + -inf = nan`, NaN absorbs, zeros keep being zeros). -/
theorem vclass_add_sound (a b : VC) (x y : FV) (hx : γ a x) (hy : γ b y) : γ (exactAdd a b) (FV.add x y) :=
  has_of_le (addAtoms_le_exactAdd a b _ _ hx hy) (fv_add_class x y)

/-- … and for subtraction, which the analysis sends through the same table. -/
theorem vclass_sub_sound (a b : VC) (x y : FV) (hx : γ a x) (hy : γ b y) : γ (exactAdd a b) (FV.sub x y) := by
  have hy' : γ b y.neg := by unfold γ; rw [classOf_neg]; exact hy
  exact vclass_add_sound a b x y.neg hx hy'

/-- `_exact_mul` is sound for `Float.__mul__` (`0 * inf = nan`). -/
theorem vclass_mul_sound (a b : VC) (x y : FV) (hx : γ a x) (hy : γ b y) : γ (exactMul a b) (FV.mul x y) :=
  has_of_le (mulAtoms_le_exactMul a b _ _ hx hy) (fv_mul_class x y)

/-- The same three rules for the exact `RealEngine` — what the interpreter runs under `fp.REAL`, the only
context where `_rounded` lets the exact class stand — on interpreter values: Floats AND Fractions
(`WFq`: a Fraction operand is non-zero with a positive denominator, as every non-dyadic Fraction is). -/
theorem vclass_real_add_sound (a b : VC) (x y : NV) (wx : WFq x) (wy : WFq y) (hx : γNV a x) (hy : γNV b y) :
    γNV (exactAdd a b) (realAdd x y) :=
  has_of_le (addAtoms_le_exactAdd a b _ _ hx hy) (nv_add_class x y wx wy)

theorem vclass_real_sub_sound (a b : VC) (x y : NV) (wx : WFq x) (wy : WFq y) (hx : γNV a x) (hy : γNV b y) :
    γNV (exactAdd a b) (realAdd x (realNeg y)) := by
  have wy' : WFq (realNeg y) := by
    cases y with
    | fv v => trivial
    | q n d => exact ⟨by simpa [realNeg] using wy.1, wy.2⟩
  have hy' : γNV b (realNeg y) := by unfold γNV; rw [nv_neg_class]; exact hy
  exact vclass_real_add_sound a b x (realNeg y) wx wy' hx hy'

theorem vclass_real_mul_sound (a b : VC) (x y : NV) (wx : WFq x) (wy : WFq y) (hx : γNV a x) (hy : γNV b y) :
    γNV (exactMul a b) (realMul x y) :=
  has_of_le (mulAtoms_le_exactMul a b _ _ hx hy) (nv_mul_class x y wx wy)

theorem vclass_real_neg_sound (a : VC) (x : NV) (hx : γNV a x) : γNV a (realNeg x) := by
  unfold γNV; rw [nv_neg_class]; exact hx

/-- `Neg` / `Abs` keep the operand's class (`_rounded(e, a)` with the exact class `a`). -/
theorem vclass_neg_sound (a : VC) (x : FV) (hx : γ a x) : γ a x.neg := by
  unfold γ; rw [classOf_neg]; exact hx

theorem vclass_abs_sound (a : VC) (x : FV) (hx : γ a x) : γ a x.abs := by
  unfold γ; rw [classOf_abs]; exact hx

/-- `_map(_LOGB, a)` is sound for `ops.logb` before its final rounding. -/
theorem vclass_logb_sound (a : VC) (x : FV) (hx : γ a x) : γ (mapTable logbTable a) (logbFV x) :=
  mapTable_has logbTable a _ _ hx (logb_atoms x)

/-- `Min` / `Max`: whichever operand the selection returns, its class is in the join
(`pairs` = each operand's abstract class with its run-time value). -/
theorem vclass_minmax_sound (pairs : List (VC × NV)) (h : ∀ p ∈ pairs, γNV p.1 p.2)
    (p : VC × NV) (hp : p ∈ pairs) : γNV (minMax (pairs.map Prod.fst)) p.2 :=
  minMax_foldl_mem _ _ p.1 _ (List.mem_map.mpr ⟨p, hp, rfl⟩) (h p hp)

/-- with a selection function (what `_unchecked_min` / `_unchecked_max` are: the result IS one operand) -/
theorem vclass_minmax_selection_sound (sel : List NV → NV) (hsel : IsSelection sel) (pairs : List (VC × NV))
    (h : ∀ p ∈ pairs, γNV p.1 p.2) (hne : pairs ≠ []) :
    γNV (minMax (pairs.map Prod.fst)) (sel (pairs.map Prod.snd)) := by
  have hmem := hsel (pairs.map Prod.snd) (by simpa using hne)
  obtain ⟨p, hp, hpe⟩ := List.mem_map.mp hmem
  rw [← hpe]
  exact vclass_minmax_sound pairs h p hp

/-! ## Value classes: rounding under a context -/

/-- **Rounding transfer, every family** (`real`, `MPFloat`, `MPSFloat`, `MPBFloat`, `EFloat`/`IEEE`,
`MPFixed`, `MPBFixed`/`Fixed`/`SMFixed`, `ExpContext`), every operand incl. NaN/±Inf, every rounding position,
`exact` flag and stochastic draw: if the context returns a value, its class is one of
`representable_classes(ctx)` — overflow to an infinity, substitution of `inf_value`/`nan_value`,
EFloat's NaN/Inf/maxval fix-up are all accounted for by the three probes. -/
theorem vclass_round_sound (C : Ctx) (v : FV) (n : Option Int) (exact : Bool) (r : Nat) (res : Res)
    (h : C.roundAtCore v n exact r = .ok res) : γ (representableClasses C) res.v :=
  accounted_sound (round_accounted C v n exact r res h)

/-- the same through `Context.round` on a `Float` operand -/
theorem vclass_ctx_round_sound (C : Ctx) (v : FV) (exact : Bool) (r : Nat) (res : Res)
    (h : C.round (.flt v) exact r = .ok res) : γ (representableClasses C) res.v := by
  simp only [Ctx.round, prepare] at h
  exact vclass_round_sound C v none exact r res h

/-- `_rounded(e, exact)`: under `REAL` the exact class stands (rounding is the identity), under any
other concrete context the result is one of the representable classes, with no scope it is top. -/
theorem vclass_rounded_sound (C : Option Ctx) (cls : VC) (v : FV) (hv : γ cls v)
    (D : Ctx) (hD : C = none ∨ C = some D) (exact : Bool) (r : Nat) (res : Res)
    (h : D.roundAtCore v none exact r = .ok res) : γ (rounded C cls) res.v := by
  rcases hD with rfl | rfl
  · exact has_top _
  · cases D with
    | real =>
      simp only [Ctx.roundAtCore] at h
      injection h with h; subst h; exact hv
    | mp p rm k o => exact vclass_round_sound _ v none exact r res h
    | mps p emin rm k o => exact vclass_round_sound _ v none exact r res h
    | mpb c => exact vclass_round_sound _ v none exact r res h
    | efloat c => exact vclass_round_sound _ v none exact r res h
    | mpfix nmin rm k nz o => exact vclass_round_sound _ v none exact r res h
    | mpbfix c => exact vclass_round_sound _ v none exact r res h
    | exp c => exact vclass_round_sound _ v none exact r res h

/-- `sum(xs)`: the `Sum()` rule answers the top class, which is sound for whatever `_eval_sum` returns
(any folding function `addC`, any list). -/
theorem vclass_sum_sound (C : Option Ctx) (a : VC) (addC : FV → FV → Except Err FV) (xs : List FV) (r : FV)
    (_h : evalSum addC xs = .ok r) : γ (sumRule C a) r := has_top _

/-- … and nothing smaller derived from the context would be: `_eval_sum` returns the single element of a
one-element list without rounding it, so under `MPFixedContext(-3, RM.RTN)` (no NaN, no infinity:
`representable_classes` is ZERO | FINITE) the sum of `[+inf]` is `+inf`.  This is the witness of the
repaired finding C13-F4, where `Sum` went through the default rule `_rounded(e, TOP)`. -/
theorem vclass_sum_not_representable (addC : FV → FV → Except Err FV) :
    let C : Ctx := .mpfix (-3) .rtn none true { enableNan := false, enableInf := false }
    evalSum addC [.inf false] = .ok (.inf false) ∧
    rounded (some C) top = (ZERO ||| FINITE) ∧
    (rounded (some C) top).has (classOf (.inf false)) = false := by
  refine ⟨rfl, ?_, ?_⟩ <;> decide

/-! ## Value classes: branch refinement -/

/-- `isnan(x)`, `isinf(x)`, `isfinite(x)` evaluating to `truth` imply the mask `_implied` intersects in. -/
theorem vclass_refine_isnan_sound (v : FV) (truth : Bool) (h : v.isNan = truth) (m : VC)
    (hm : impliedPred .isnan truth = some m) : γ m v := implied_isnan v truth h m hm

theorem vclass_refine_isinf_sound (v : FV) (truth : Bool) (h : v.isInf = truth) (m : VC)
    (hm : impliedPred .isinf truth = some m) : γ m v := implied_isinf v truth h m hm

theorem vclass_refine_isfinite_sound (v : FV) (truth : Bool) (h : fvIsFinite v = truth) (m : VC)
    (hm : impliedPred .isfinite truth = some m) : γ m v := implied_isfinite v truth h m hm

/-- A link `x op y` of a comparison that HOLDS, neither side a literal: both operands get the mask
`INF | ZERO | FINITE` unless the operator is `!=` (which gets none).  Values are interpreter values
(Floats or Fractions), compared as the interpreter compares them. -/
theorem vclass_refine_cmp_true_sound (op : CmpOp) (x y : NV) (h : cmpHolds op x y = true) (m : VC)
    (hm : impliedLinkTrue op .notLit = some m) : γNV m x ∧ γNV m y := by
  have hop : op ≠ .ne := by intro e; subst e; simp [impliedLinkTrue] at hm
  have hm' : m = (INF ||| ZERO) ||| FINITE := by
    cases op <;> simp [impliedLinkTrue] at hm <;> first | exact hm.symm | exact absurd rfl hop
  obtain ⟨h1, h2⟩ := cmp_true_not_nan op x y hop h
  subst hm'
  exact ⟨not_nan_has _ h1, not_nan_has _ h2⟩

/-- A link that HOLDS against a literal `l` (a finite constant; here a dyadic one, i.e. a `Float`
operand — the gap: a non-dyadic `Fraction` literal such as `0.1`, compared by cross-multiplication,
is not covered by this theorem): `x == 0` pins ZERO, `x == l` (l ≠ 0) pins FINITE, `x != 0` removes
ZERO, an ordering removes NaN.  `_both` applies it with the literal on either side. -/
theorem vclass_refine_cmp_lit_true_partial (op : CmpOp) (x : FV) (l : RF)
    (h : cmpHolds op (.fv x) (.fv (.fin l)) = true ∨ cmpHolds op (.fv (.fin l)) (.fv x) = true) (m : VC)
    (hm : impliedLinkTrue op (litOf (.fv (.fin l))) = some m) : γ m x := by
  have hlit : litOf (.fv (.fin l)) = if l.c = 0 then Lit.zero else Lit.nonzero := by
    simp [litOf, nvIsZero, FV.isZero]
  rw [hlit] at hm
  cases op with
  | eq =>
    have hc : classOf x = classOf (.fin l) := by
      rcases h with h | h
      · simp only [cmpHolds, nvCompare] at h
        cases hcmp : FV.compare x (.fin l) with
        | none => rw [hcmp] at h; simp at h
        | some o =>
          rw [hcmp] at h; simp only [beq_iff_eq] at h; subst h
          exact fv_eq_fin_class x l hcmp
      · simp only [cmpHolds, nvCompare] at h
        cases hcmp : FV.compare (.fin l) x with
        | none => rw [hcmp] at h; simp at h
        | some o =>
          rw [hcmp] at h; simp only [beq_iff_eq] at h; subst h
          exact fv_eq_fin_class' x l hcmp
    unfold γ; rw [hc]
    by_cases hl : l.c = 0
    · simp [impliedLinkTrue, hl] at hm; subst hm; rw [classOf_fin_zero hl]; decide
    · simp [impliedLinkTrue, hl] at hm; subst hm; rw [classOf_fin_nz hl]; decide
  | ne =>
    by_cases hl : l.c = 0
    · simp [impliedLinkTrue, hl] at hm; subst hm
      -- `x != 0` holds: x is not a zero
      unfold γ
      cases x with
      | nan s => rfl
      | inf s => rfl
      | fin r =>
        by_cases hr : r.c = 0
        · exfalso
          rcases h with h | h <;>
            simp [cmpHolds, nvCompare, FV.compare, RF.compare, hr, hl] at h
        · rw [classOf_fin_nz hr]; decide
    · simp [impliedLinkTrue, hl] at hm
  | lt | le | ge | gt =>
    have hm' : m = (INF ||| ZERO) ||| FINITE := by
      simp [impliedLinkTrue] at hm; exact hm.symm
    subst hm'
    rcases h with h | h
    · exact not_nan_has _ (cmp_true_not_nan _ (.fv x) _ (by decide) h).1
    · exact not_nan_has _ (cmp_true_not_nan _ _ (.fv x) (by decide) h).2

/-- A single comparison that FAILS: `not (x != l)` is `x == l`; a failed `x == 0` removes ZERO and
nothing else (a NaN takes that arm too); a failed ordering says nothing.  Same literal gap as above. -/
theorem vclass_refine_cmp_lit_false_partial (op : CmpOp) (x : FV) (l : RF)
    (h : cmpHolds op (.fv x) (.fv (.fin l)) = false ∨ cmpHolds op (.fv (.fin l)) (.fv x) = false) (m : VC)
    (hm : impliedLinkFalse op (litOf (.fv (.fin l))) = some m) : γ m x := by
  cases op with
  | ne =>
    -- `x != l` false means `x == l` true
    have h' : cmpHolds .eq (.fv x) (.fv (.fin l)) = true ∨ cmpHolds .eq (.fv (.fin l)) (.fv x) = true := by
      rcases h with h | h
      · left; simp only [cmpHolds] at h ⊢; split at h <;> simp_all
      · right; simp only [cmpHolds] at h ⊢; split at h <;> simp_all
    exact vclass_refine_cmp_lit_true_partial .eq x l h' m (by simpa [impliedLinkFalse] using hm)
  | eq =>
    have hlit : litOf (.fv (.fin l)) = if l.c = 0 then Lit.zero else Lit.nonzero := by
      simp [litOf, nvIsZero, FV.isZero]
    rw [hlit] at hm
    by_cases hl : l.c = 0
    · simp [impliedLinkFalse, hl] at hm; subst hm
      unfold γ
      cases x with
      | nan s => rfl
      | inf s => rfl
      | fin r =>
        by_cases hr : r.c = 0
        · exfalso
          rcases h with h | h <;>
            simp [cmpHolds, nvCompare, FV.compare, RF.compare, hr, hl] at h
        · rw [classOf_fin_nz hr]; decide
    · simp [impliedLinkFalse, hl] at hm
  | lt | le | ge | gt => simp [impliedLinkFalse] at hm

/-- `_refined`: intersecting a sound mask with an implied class stays sound. -/
theorem vclass_refine_meet_sound (mask : VC) (cls : Option VC) (v : FV) (hmask : γ mask v)
    (hcls : ∀ c, cls = some c → γ c v) : γ (refine mask cls) v := by
  cases cls with
  | none => exact hmask
  | some c =>
    unfold γ refine
    rw [has_meet, hmask, hcls c rfl]; rfl

/-- joins at phi nodes (`lhs | rhs`) over-approximate both arms -/
theorem vclass_join_sound (a b : VC) (v : FV) (h : γ a v ∨ γ b v) : γ (a ||| b) v := by
  rcases h with h | h
  · exact has_join_left h
  · exact has_join_right h

/-! ## non-vacuity -/

example : γ (exactAdd INF INF) (FV.add (.inf false) (.inf true)) :=
  vclass_add_sound INF INF _ _ rfl rfl
example : exactAdd INF INF = (NAN ||| INF) := by decide
example : exactMul (ZERO ||| FINITE) INF = (NAN ||| INF) := by decide
example : classOf (FV.mul (.fin ⟨false, 0, 0⟩) (.inf true)) = .nan := by decide
example : impliedLinkTrue .eq .zero = some ZERO := rfl
example : mapTable logbTable (ZERO ||| FINITE) = ((INF ||| ZERO) ||| FINITE) := by decide

/-! ## Union-find (`fpy2/utils/unionfind.py`)

`UF` models the object's two dictionaries; `find` is the path-halving loop as written (fuel computed
from the state and proved sufficient), `union` links the root of the second argument under the root
of the first.  `RootOf u x r`: `r` is the representative of `x` (reachable along parent pointers, and
a root); `Same u a b`: same representative; `WF`: the object invariant (no duplicate keys, parents
stay inside the key set, no cycles, `_sets` = the roots with exactly their classes). -/

/-- every reachable object state is well formed: any sequence of `add`/`find`/`get`/`union`/`component`
calls on a fresh `Unionfind()` (raising calls change nothing) -/
theorem uf_run_wf (ops : List C13.Op) : WF (UF.run UF.empty ops) := run_wf ops

/-- `Unionfind(xs)` is well formed and starts from the discrete partition -/
theorem uf_ofList (xs : List Nat) :
    WF (UF.ofList xs) ∧ (∀ y, y ∈ (UF.ofList xs).dom ↔ y ∈ xs) ∧ (∀ y z, Same (UF.ofList xs) y z ↔ y = z) :=
  ⟨wf_ofList xs, ofList_dom xs, ofList_same xs⟩

/-- in a well-formed state every element has exactly one representative -/
theorem uf_root_exists_unique {u : UF} (h : WF u) {x : Nat} (hx : x ∈ u.dom) :
    ∃ r, RootOf u x r ∧ ∀ s, RootOf u x s → s = r := root_exists_unique h hx

/-- `find` returns the representative (before and after its own path compression), which is a key;
it raises `KeyError` exactly for absent elements -/
theorem uf_find_root {u u' : UF} {x r : Nat} (h : WF u) (hf : u.find x = some (u', r)) :
    RootOf u x r ∧ RootOf u' x r ∧ r ∈ u.dom ∧ WF u' :=
  let ⟨a, b, c⟩ := find_root h hf; ⟨a, b, c, wf_find h hf⟩

theorem uf_find_keyerror (u : UF) (x : Nat) : u.find x = none ↔ x ∉ u.dom := find_keyerror u x

/-- path halving changes no representative, no key and no `_sets` entry -/
theorem uf_find_preserves {u u' : UF} {x r : Nat} (h : WF u) (hf : u.find x = some (u', r)) :
    (∀ y s, RootOf u' y s ↔ RootOf u y s) ∧ u'.dom = u.dom ∧ u'.sets = u.sets := find_preserves h hf

/-- `find` is idempotent: asking again (for the result, or for the same element) gives the same answer -/
theorem uf_find_idempotent {u u' : UF} {x r : Nat} (h : WF u) (hf : u.find x = some (u', r)) :
    (∃ u'', u'.find r = some (u'', r)) ∧ (∃ u'', u'.find x = some (u'', r)) := find_idempotent h hf

/-- after `union a b` the two elements have the same representative, and it is the OLD representative
of the first argument (the docstring's promise) -/
theorem uf_union_connects {u u' : UF} {a b r : Nat} (h : WF u) (hu : u.union a b = some (u', r)) :
    Same u' a b ∧ RootOf u' a r ∧ RootOf u' b r ∧ RootOf u a r ∧ WF u' :=
  let ⟨s, ra, rb⟩ := union_connects h hu; ⟨s, ra, rb, union_root_is_left h hu, wf_union h hu⟩

/-- classes not involving `a`, `b` are untouched -/
theorem uf_union_preserves {u u' : UF} {a b r : Nat} (h : WF u) (hu : u.union a b = some (u', r)) :
    ∀ z, z ∈ u.dom → ¬ Same u z a → ¬ Same u z b → ∀ s, RootOf u' z s ↔ RootOf u z s := union_preserves h hu

/-- exact characterisation: the new partition is the old one with the classes of `a` and `b` merged -/
theorem uf_union_merges {u u' : UF} {a b r : Nat} (h : WF u) (hu : u.union a b = some (u', r)) :
    ∀ z w, z ∈ u.dom → w ∈ u.dom →
      (Same u' z w ↔ (Same u z w ∨ ((Same u z a ∨ Same u z b) ∧ (Same u w a ∨ Same u w b)))) := union_merges h hu

theorem uf_union_keyerror (u : UF) (a b : Nat) : u.union a b = none ↔ (a ∉ u.dom ∨ b ∉ u.dom) := union_keyerror u a b

/-- `Same` is an equivalence relation on the elements -/
theorem uf_same_equiv {u : UF} (h : WF u) {x y z : Nat} :
    (∀ x, x ∈ u.dom → Same u x x) ∧ (Same u x y → Same u y x) ∧ (Same u x y → Same u y z → Same u x z) := same_equiv h

/-- **the partition invariant over any operation sequence**: after any sequence of calls the elements are
exactly those added, and two of them have the same representative iff they are related by the smallest
equivalence relation containing the pairs `(a, b)` of the `union a b` calls made when both were present
(`specSame` is defined on the op list alone, independently of the data structure) -/
theorem uf_run_partition (ops : List C13.Op) :
    (UF.run UF.empty ops).dom = (specRun ⟨[], []⟩ ops).elems ∧
    ∀ x y, x ∈ (UF.run UF.empty ops).dom → y ∈ (UF.run UF.empty ops).dom →
      (Same (UF.run UF.empty ops) x y ↔ specSame ops x y) := run_partition ops

/-- `component(x)` is exactly the class of `x`; `representatives()` is exactly the set of roots -/
theorem uf_component_correct {u u' : UF} {x : Nat} {ms : List Nat} (h : WF u)
    (hc : u.component x = some (u', ms)) : ∀ y, y ∈ ms ↔ (y ∈ u.dom ∧ Same u y x) := component_correct h hc

theorem uf_representatives_correct {u : UF} (h : WF u) :
    ∀ r, r ∈ u.representatives ↔ (r ∈ u.dom ∧ u.parent r = r) := representatives_correct h

/-- `items()` does NOT yield (element, representative) as its docstring says: after
`add 0; add 1; add 2; union 1 2; union 0 1` it yields `(2, 1)` while the representative of 2 is 0
(API-level finding; the only in-tree caller, `ReachingDefs._normalize`, unions singletons only). -/
theorem uf_items_counterexample :
    (2, 1) ∈ (UF.run UF.empty exOps).items ∧ RootOf (UF.run UF.empty exOps) 2 0 ∧ ¬ RootOf (UF.run UF.empty exOps) 2 1 :=
  items_counterexample

example : ((UF.run UF.empty exOps).find 2).map Prod.snd = some 0 := by decide
example : (UF.run UF.empty [.add 3, .add 5, .add 7, .union 5 7]).representatives = [3, 5] := by decide

end Fpy.Props.C13
