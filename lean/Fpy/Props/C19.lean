/-
C19 — Sites, indices and cursors name exactly what they say.

Model: `Fpy/Model/Cursor.lean` (paths, `Edit`, `EditLog.__post_init__`, `_forward_stmt`,
`_forward_block`, `EditLog.forward`, `_forward_region`, `_forward_expr`, `Function.forward`) and
`Fpy/Model/Sites.lean` (`check_where`, `_selects_at`, the candidate loop, `check_site`).
Specification: `Fpy/Spec/Cursor.lean` (`applyEdits`: what a log means; `Descends`).
Helper lemmas: `Fpy/Proof/Cursor.lean`.

Vocabulary.  `L : EditLog` is a log of the real code: source program, result program, edits in
the source's terms.  `SpecLog fresh L` says the log is one the code accepts (`L.check`, i.e.
`EditLog.__post_init__` passes), and that its result program really is the source with every
recorded run `[index, index+removed)` replaced by the `inserted` statements `fresh e`.
`touched E p`: `p` lies at or beneath a replaced statement.  All theorems hold for every tree, every
log and every path (unbounded sizes).
-/
import Fpy.Proof.Cursor
namespace Fpy.Props.C19
open Fpy.Cursor Fpy.Cursor.Spec Fpy.Cursor.Proof Fpy.Sites

/-- **forward_untouched.**  A cursor whose statement is not at or beneath any replaced run forwards
to a statement cursor of the result program that resolves to the image of that very statement
(same tag; its nested blocks edited in place). -/
theorem forward_untouched (fresh : Edit → List Stmt) (L : EditLog) (h : SpecLog fresh L)
    (p : StmtPath) (s : Stmt) (hres : resolveStmt L.source.body p = .ok s)
    (hu : touched L.edits p = false) :
    ∃ q, L.forward (.stmt L.source.pid p) = .ok (.stmt L.result.pid q) ∧
      resolveStmt L.result.body q = .ok (applyStmt fresh L.edits p.parent p.index s) ∧
      (applyStmt fresh L.edits p.parent p.index s).tag = s.tag := by
  rw [touched_eq, Bool.or_eq_false_iff] at hu
  rcases forwardStmtCursor_cases fresh L h.fresh_len h.disjoint h.result_eq p s hres with h1 | h1 | h1
  · rw [hu.2] at h1; cases h1.1
  · obtain ⟨_, _, q, hq, hr⟩ := h1
    exact ⟨q, hq, hr, applyStmt_tag ..⟩
  · obtain ⟨_, c, hc, hcov, _⟩ := h1
    have : coveredBy L.edits p.parent p.index = true := by
      simp only [coveredBy, List.any_eq_true]; exact ⟨c, hc, hcov⟩
    rw [hu.1] at this; cases this

/-- **untouched_unchanged.**  If moreover no edit lies in a block under the statement, the
forwarded cursor resolves to the identical statement (its whole subtree unchanged). -/
theorem untouched_unchanged (fresh : Edit → List Stmt) (L : EditLog) (h : SpecLog fresh L)
    (p : StmtPath) (s : Stmt) (hres : resolveStmt L.source.body p = .ok s)
    (hu : touched L.edits p = false)
    (hbelow : ∀ e ∈ L.edits, ∀ f, ¬ (⟨p.index, f⟩ :: p.parent) <:+ e.blockPath) :
    ∃ q, L.forward (.stmt L.source.pid p) = .ok (.stmt L.result.pid q) ∧
      resolveStmt L.result.body q = .ok s := by
  obtain ⟨q, hq, hr, _⟩ := forward_untouched fresh L h p s hres hu
  rw [applyStmt_id fresh L.edits p.parent p.index s hbelow] at hr
  exact ⟨q, hq, hr⟩

/-- **forward_replaced_or_error.**  A cursor at or beneath a replaced run: if an enclosing
statement was replaced it is the reference error "inside ..., which was rewritten"; otherwise its
own statement lies in the run of an edit `c` of its block and the image is exactly the replacing
run: nothing (`deleted` error) when `c.inserted = 0`, the one statement `fresh c = [s']` when
`c.inserted = 1`, and otherwise the region of the result program whose statements are `fresh c`. -/
theorem forward_replaced_or_error (fresh : Edit → List Stmt) (L : EditLog) (h : SpecLog fresh L)
    (p : StmtPath) (s : Stmt) (hres : resolveStmt L.source.body p = .ok s)
    (ht : touched L.edits p = true) :
    L.forward (.stmt L.source.pid p) = .error .insideRewritten ∨
    ∃ c ∈ L.edits, covers c p.parent p.index = true ∧
      ((c.inserted = 0 ∧ L.forward (.stmt L.source.pid p) = .error .deleted) ∨
       (c.inserted = 1 ∧ ∃ q s', L.forward (.stmt L.source.pid p) = .ok (.stmt L.result.pid q) ∧
          fresh c = [s'] ∧ resolveStmt L.result.body q = .ok s') ∨
       (c.inserted ≥ 2 ∧ ∃ nb a b', L.forward (.stmt L.source.pid p)
            = .ok (.region L.result.pid nb a (a + c.inserted)) ∧
          resolveBlock L.result.body nb = .ok b' ∧ (b'.drop a).take c.inserted = fresh c)) := by
  rcases forwardStmtCursor_cases fresh L h.fresh_len h.disjoint h.result_eq p s hres with h1 | h1 | h1
  · exact Or.inl h1.2
  · rw [touched_eq, h1.1, h1.2.1] at ht; cases ht
  · obtain ⟨_, c, hc, hcov, hrest⟩ := h1
    exact Or.inr ⟨c, hc, hcov, hrest⟩

/-- **forward_never_unrelated.**  Whatever `EditLog.forward` returns for a statement cursor
resolves, in the result program, to statements that all descend from the statement the cursor
named: its own image, or the run that replaced it.  It never resolves to anything else, and it
always resolves (the constructor-time validation of the returned cursor cannot fail). -/
theorem forward_never_unrelated (fresh : Edit → List Stmt) (L : EditLog) (h : SpecLog fresh L)
    (p : StmtPath) (s : Stmt) (hres : resolveStmt L.source.body p = .ok s)
    (cur : Cursor) (hfw : L.forward (.stmt L.source.pid p) = .ok cur) :
    cur.pid = L.result.pid ∧
    ∃ ss, resolveCursor L.result.body cur = .ok ss ∧ ss ≠ [] ∧ ∀ s' ∈ ss, Descends fresh L.edits p s s' := by
  have hfw' : L.forwardStmtCursor L.source.pid p = .ok cur := hfw
  rcases forwardStmtCursor_cases fresh L h.fresh_len h.disjoint h.result_eq p s hres with h1 | h1 | h1
  · rw [h1.2] at hfw'; cases hfw'
  · obtain ⟨htb, hcv, q, hq, hr⟩ := h1
    rw [hq] at hfw'; cases hfw'
    refine ⟨rfl, [applyStmt fresh L.edits p.parent p.index s], ?_, by simp, ?_⟩
    · simp [resolveCursor, hr]
    · intro s' hs'
      simp at hs'; subst hs'
      left
      exact ⟨by rw [touched_eq, hcv, htb]; rfl, rfl⟩
  · obtain ⟨_, c, hc, hcov, hrest⟩ := h1
    rcases hrest with ⟨_, h0⟩ | ⟨_, q, s', hq, hfr, hr⟩ | ⟨h2, nb, a, b', hq, hrb, htk⟩
    · rw [h0] at hfw'; cases hfw'
    · rw [hq] at hfw'; cases hfw'
      refine ⟨rfl, [s'], by simp [resolveCursor, hr], by simp, ?_⟩
      intro x hx
      simp at hx; subst hx
      right
      exact ⟨c, hc, hcov, by rw [hfr]; simp⟩
    · rw [hq] at hfw'; cases hfw'
      refine ⟨rfl, fresh c, ?_, ?_, ?_⟩
      · simp only [resolveCursor, hrb]
        have : a + c.inserted - a = c.inserted := by omega
        rw [this, htk]
      · intro hnil
        have := h.fresh_len c hc
        rw [hnil] at this; simp at this; omega
      · intro x hx
        right
        exact ⟨c, hc, hcov, hx⟩

/-- forwarding a valid statement cursor of the source program across an accepted log fails only
as "deleted" or "inside a rewritten statement" -/
theorem forward_error_kinds (fresh : Edit → List Stmt) (L : EditLog) (h : SpecLog fresh L)
    (p : StmtPath) (s : Stmt) (hres : resolveStmt L.source.body p = .ok s)
    (e : Err) (hfw : L.forward (.stmt L.source.pid p) = .error e) : e = .deleted ∨ e = .insideRewritten := by
  have hfw' : L.forwardStmtCursor L.source.pid p = .error e := hfw
  rcases forwardStmtCursor_cases fresh L h.fresh_len h.disjoint h.result_eq p s hres with h1 | h1 | h1
  · rw [h1.2] at hfw'; cases hfw'; exact Or.inr rfl
  · obtain ⟨_, _, q, hq, _⟩ := h1
    rw [hq] at hfw'; cases hfw'
  · obtain ⟨_, c, _, _, hrest⟩ := h1
    rcases hrest with ⟨_, h0⟩ | ⟨_, q, s', hq, _, _⟩ | ⟨_, nb, a, b', hq, _, _⟩
    · rw [h0] at hfw'; cases hfw'; exact Or.inl rfl
    · rw [hq] at hfw'; cases hfw'
    · rw [hq] at hfw'; cases hfw'

/-- a cursor of any other program is a reference error, never a coincidence -/
theorem forward_other_program (L : EditLog) (pid : Nat) (p : StmtPath) (hne : pid ≠ L.source.pid) :
    L.forward (.stmt pid p) = .error .otherProgram := by
  simp [EditLog.forward, EditLog.forwardStmtCursor, hne]

/-- **forward_expr.**  An expression cursor forwards only under the pass's claim that it left
expressions alone, only out of a statement whose expressions were not rewritten and that is not at
or beneath a replaced run — and then it lands in the image of that very statement. -/
theorem forward_expr_never_unrelated (fresh : Edit → List Stmt) (L : EditLog) (h : SpecLog fresh L)
    (p : StmtPath) (s : Stmt) (hres : resolveStmt L.source.body p = .ok s)
    (cur : Cursor) (hfw : L.forward (.expr L.source.pid p) = .ok cur) :
    L.exprsPreserved = true ∧ p ∉ L.exprsRewritten ∧ touched L.edits p = false ∧
    ∃ q, cur = .expr L.result.pid q ∧
      resolveStmt L.result.body q = .ok (applyStmt fresh L.edits p.parent p.index s) := by
  have hfw' : L.forwardExpr L.source.pid p = .ok cur := hfw
  unfold EditLog.forwardExpr at hfw'
  have hpid : (L.source.pid != L.source.pid) = false := by simp
  simp only [hpid, Bool.false_eq_true, if_false] at hfw'
  cases hp : L.exprsPreserved with
  | false => simp [hp] at hfw'
  | true =>
    simp only [hp, Bool.not_true, Bool.false_eq_true, if_false] at hfw'
    by_cases hm : p ∈ L.exprsRewritten
    · have hc : L.exprsRewritten.contains p = true := List.contains_iff_mem.mpr hm
      simp only [hc, if_true] at hfw'
      cases hfw'
    · have hc : L.exprsRewritten.contains p = false := by
        cases h2 : L.exprsRewritten.contains p with
        | false => rfl
        | true => exact absurd (List.contains_iff_mem.mp h2) hm
      simp only [hc, Bool.false_eq_true, if_false] at hfw'
      rw [forwardStmt_eq] at hfw'
      cases hb : forwardBlock L.edits p.parent with
      | error e => rw [hb] at hfw'; cases hfw'
      | ok nb =>
        rw [hb] at hfw'
        cases hl : lastCover L.edits p.parent p.index with
        | some c => rw [hl] at hfw'; cases hfw'
        | none =>
          rw [hl] at hfw'
          have hcov := (lastCover_none_iff L.edits p.parent p.index).mp hl
          have htb := forwardBlock_ok_untouched L.edits p.parent nb hb
          have hr := resolve_forward_untouched fresh L.edits L.source.body h.fresh_len h.disjoint p s nb hres hb hcov
          rw [← h.result_eq] at hr
          simp only [mkExprCursor, hr] at hfw'
          cases hfw'
          exact ⟨rfl, hm, by rw [touched_eq, hcov, htb]; rfl, _, rfl, hr⟩

/-! ### regions -/

/-- **forward_region_never_unrelated.**  Whatever `EditLog.forward` returns for a region (a
`BlockCursor`, which is what a statement replaced by several forwards to, so what chain replay
goes through) resolves to statements each of which descends from one of the region's members. -/
theorem forward_region_never_unrelated (fresh : Edit → List Stmt) (L : EditLog) (h : SpecLog fresh L)
    (bp : BlockPath) (a b : Nat) (blk : Block) (hblk : resolveBlock L.source.body bp = .ok blk)
    (hb : b ≤ blk.length) (cur : Cursor)
    (hfw : L.forward (.region L.source.pid bp a b) = .ok cur) :
    cur.pid = L.result.pid ∧
    ∃ ss, resolveCursor L.result.body cur = .ok ss ∧
      ∀ s' ∈ ss, ∃ i s, a ≤ i ∧ i < b ∧ resolveStmt L.source.body ⟨bp, i⟩ = .ok s ∧
        Descends fresh L.edits ⟨bp, i⟩ s s' := by
  have hfw' : L.forwardRegion L.source.pid bp a b = .ok cur := hfw
  unfold EditLog.forwardRegion at hfw'
  by_cases h0 : (b - a == 0) = true
  · simp [h0] at hfw'
  · simp only [h0, Bool.false_eq_true, if_false] at hfw'
    cases himg : imagesOf L L.source.pid bp (List.range' a (b - a)) with
    | error e => rw [himg] at hfw'; cases hfw'
    | ok imgs =>
      rw [himg] at hfw'
      simp only at hfw'
      cases hsp : imgs.map Cursor.blockSpan with
      | nil => rw [hsp] at hfw'; cases hfw'
      | cons s0 rest =>
        rw [hsp] at hfw'
        simp only at hfw'
        by_cases hcond : (!(s0 :: rest).all (fun s => s.1 == s0.1) || !adjacent (s0 :: rest)) = true
        · rw [if_pos hcond] at hfw'; cases hfw'
        · rw [if_neg hcond] at hfw'
          have hsame : (s0 :: rest).all (fun s => s.1 == s0.1) = true := by
            cases hx : (s0 :: rest).all (fun s => s.1 == s0.1) with
            | true => rfl
            | false => rw [hx] at hcond; simp at hcond
          have hadj : adjacent (s0 :: rest) = true := by
            cases hx : adjacent (s0 :: rest) with
            | true => rfl
            | false => rw [hx] at hcond; simp at hcond
          rw [foldl_max] at hfw'
          have hmax : max 0 (maxStop (s0 :: rest)) = maxStop (s0 :: rest) := by omega
          rw [hmax] at hfw'
          by_cases h1 : (maxStop (s0 :: rest) - s0.2.1 == 1) = true
          · rw [if_pos h1] at hfw'
            have h1' : maxStop (s0 :: rest) - s0.2.1 = 1 := by simpa using h1
            unfold mkStmtCursor at hfw'
            cases hr : resolveStmt L.result.body ⟨s0.1, s0.2.1⟩ with
            | error e => rw [hr] at hfw'; cases hfw'
            | ok x =>
              rw [hr] at hfw'; cases hfw'
              obtain ⟨rb, hrb, hg⟩ := resolveStmt_ok hr
              refine ⟨rfl, [x], by simp [resolveCursor, hr], ?_⟩
              intro s' hs'
              simp at hs'; subst hs'
              exact region_core fresh L h bp a b blk hblk hb imgs himg s0 rest hsp hsame hadj rb hrb
                s0.2.1 s' (Nat.le_refl _) (by omega) hg
          · rw [if_neg h1] at hfw'
            unfold mkRegion at hfw'
            cases hrb : resolveBlock L.result.body s0.1 with
            | error e => rw [hrb] at hfw'; cases hfw'
            | ok rb =>
              rw [hrb] at hfw'
              simp only at hfw'
              by_cases hlen : maxStop (s0 :: rest) ≤ rb.length
              · rw [if_pos hlen] at hfw'; cases hfw'
                refine ⟨rfl, (rb.drop s0.2.1).take (maxStop (s0 :: rest) - s0.2.1), by simp [resolveCursor, hrb], ?_⟩
                intro s' hs'
                obtain ⟨j, hj1, hj2, hget⟩ := mem_slice rb _ _ s' hs'
                have hne : maxStop (s0 :: rest) - s0.2.1 ≠ 0 := by
                  intro hz; rw [hz] at hs'; simp at hs'
                exact region_core fresh L h bp a b blk hblk hb imgs himg s0 rest hsp hsame hadj rb hrb
                  j s' hj1 (by omega) hget
              · rw [if_neg hlen] at hfw'; cases hfw'

/-! ### replay along the parent chain (`Function.forward`) -/

theorem chain_self (ast : Prog) (log : Option EditLog) (rest : List (Prog × Option EditLog)) (c : Cursor)
    (h : ast.pid = c.pid) : chainForward ((ast, log) :: rest) c = .ok c := by
  simp [chainForward, h]

theorem chain_unrelated (c : Cursor) (chain : List (Prog × Option EditLog))
    (h : ∀ x ∈ chain, x.1.pid ≠ c.pid) : chainForward chain c = .error .unrelated := by
  induction chain with
  | nil => rfl
  | cons x r ih =>
    obtain ⟨ast, log⟩ := x
    have h1 := h (ast, log) List.mem_cons_self
    simp only [chainForward]
    have : (ast.pid == c.pid) = false := by simpa using h1
    rw [this, ih (fun y hy => h y (List.mem_cons_of_mem _ hy))]
    simp

theorem chain_step (ast : Prog) (L : EditLog) (rest : List (Prog × Option EditLog)) (c out : Cursor)
    (hne : ast.pid ≠ c.pid) (hrest : chainForward rest c = .ok out) :
    chainForward ((ast, some L) :: rest) c = L.forward out := by
  have : (ast.pid == c.pid) = false := by simpa using hne
  simp [chainForward, this, hrest]

theorem chain_opaque (ast : Prog) (rest : List (Prog × Option EditLog)) (c out : Cursor)
    (hne : ast.pid ≠ c.pid) (hrest : chainForward rest c = .ok out) :
    chainForward ((ast, none) :: rest) c = .error .opaque := by
  have : (ast.pid == c.pid) = false := by simpa using hne
  simp [chainForward, this, hrest]

/-- one step for any validated statement / region cursor of the source program -/
theorem forward_step (fresh : Edit → List Stmt) (L : EditLog) (h : SpecLog fresh L)
    (c : Cursor) (hv : ValidIn L.source.body c) (hpid : c.pid = L.source.pid)
    (cur : Cursor) (hfw : L.forward c = .ok cur) :
    cur.pid = L.result.pid ∧ ValidIn L.result.body cur ∧
    ∃ ss0 ss, resolveCursor L.source.body c = .ok ss0 ∧ resolveCursor L.result.body cur = .ok ss ∧
      ∀ s' ∈ ss, ∃ s ∈ ss0, ∃ p, resolveStmt L.source.body p = .ok s ∧ Descends fresh L.edits p s s' := by
  have hval := forward_valid L c cur (by intro pid p hc; subst hc; exact hv) hfw
  refine ⟨hval.1, hval.2, ?_⟩
  cases c with
  | expr pid p => exact absurd hv id
  | stmt pid p =>
    obtain ⟨s, hs⟩ := hv
    simp only [Cursor.pid] at hpid
    subst hpid
    obtain ⟨_, ss, hr, _, hd⟩ := forward_never_unrelated fresh L h p s hs cur hfw
    refine ⟨[s], ss, by simp [resolveCursor, hs], hr, ?_⟩
    intro s' hs'
    exact ⟨s, by simp, p, hs, hd s' hs'⟩
  | region pid bp a b =>
    obtain ⟨blk, hblk, hb⟩ := hv
    simp only [Cursor.pid] at hpid
    subst hpid
    obtain ⟨_, ss, hr, hd⟩ := forward_region_never_unrelated fresh L h bp a b blk hblk hb cur hfw
    refine ⟨(blk.drop a).take (b - a), ss, by simp [resolveCursor, hblk], hr, ?_⟩
    intro s' hs'
    obtain ⟨i, s, hia, hib, hres, hdesc⟩ := hd s' hs'
    refine ⟨s, ?_, ⟨bp, i⟩, hres, hdesc⟩
    obtain ⟨blk2, hb2, hg⟩ := resolveStmt_ok hres
    rw [hblk] at hb2; cases hb2
    exact slice_mem blk a (b - a) i s hia (by omega) hg

/-! ### the chain -/

/-- **chain.**  A cursor (statement or region) taken on the root program and replayed by
`Function.forward` across ANY number of passes whose logs meet the specification either fails
with a reference error or resolves, in the newest program, to statements each of which is reached
from a statement the cursor originally named by descending once per pass.  It never resolves to an
unrelated statement. -/
theorem chain_never_unrelated (root : Prog) (steps : List Pass) (hl : Linked root steps)
    (c : Cursor) (hv : ValidIn root.body c) (hpid : c.pid = root.pid)
    (cur : Cursor) (hfw : chainForward (mkChain root steps) c = .ok cur) :
    cur.pid = (top root steps).pid ∧ ValidIn (top root steps).body cur ∧
    ∃ ss0 ss, resolveCursor root.body c = .ok ss0 ∧ resolveCursor (top root steps).body cur = .ok ss ∧
      ∀ s' ∈ ss, ∃ s ∈ ss0, Lineage steps s s' := by
  induction steps generalizing cur with
  | nil =>
    simp only [mkChain, chainForward, hpid, beq_self_eq_true, if_true] at hfw
    cases hfw
    refine ⟨hpid, hv, ?_⟩
    have : ∃ ss0, resolveCursor root.body c = .ok ss0 := by
      cases c with
      | expr pid p => exact absurd hv id
      | stmt pid p => obtain ⟨s, hs⟩ := hv; exact ⟨[s], by simp [resolveCursor, hs]⟩
      | region pid bp a b => obtain ⟨blk, hb, _⟩ := hv; exact ⟨(blk.drop a).take (b - a), by simp [resolveCursor, hb]⟩
    obtain ⟨ss0, h0⟩ := this
    exact ⟨ss0, ss0, h0, h0, fun s' hs' => ⟨s', hs', Lineage.nil s'⟩⟩
  | cons st rest ih =>
    obtain ⟨L, f⟩ := st
    obtain ⟨hspec, hsrc, hne, hrest⟩ := hl
    simp only [mkChain, chainForward] at hfw
    have hne' : (L.result.pid == c.pid) = false := by rw [hpid]; simpa using hne
    rw [hne'] at hfw
    simp only [Bool.false_eq_true, if_false] at hfw
    cases hout : chainForward (mkChain root rest) c with
    | error e => rw [hout] at hfw; cases hfw
    | ok out =>
      rw [hout] at hfw; simp only at hfw
      obtain ⟨hop, hov, ss0, ss1, h0, h1, hlin⟩ := ih hrest out hout
      rw [← hsrc] at hop hov h1
      obtain ⟨hcp, hcv, ssa, ssb, ha, hb, hdesc⟩ := forward_step f L hspec out hov hop cur hfw
      rw [h1] at ha; cases ha
      refine ⟨hcp, hcv, ss0, ssb, h0, hb, ?_⟩
      intro s' hs'
      obtain ⟨s1, hs1, p, hp, hd⟩ := hdesc s' hs'
      obtain ⟨s, hs, hl1⟩ := hlin s1 hs1
      exact ⟨s, hs, Lineage.step hl1 ⟨p, hp, hd⟩⟩

/-! ### `where`: indices, `None`, refusals -/

/-- **index_selects.**  If the listing has `k` sites, aiming at index `j < k` rewrites the `j`-th
listed site and only it. -/
theorem index_selects (pid : Nat) (cands : List Cand) (j : Nat) (hj : j < (listSites cands).length) :
    apply pid cands (.index j) = .ok [(listSites cands)[j]] := by
  rw [listSites_eq] at hj
  have hw := walk_index (j : Int) cands {}
  simp only at hw
  obtain ⟨hsi, hrw⟩ := hw
  simp only [apply, checkWhere, targetOf, checkSite]
  have h0 : (({} : State).siteIdx : Int) ≤ (j : Int) := by simp
  rw [if_pos h0] at hrw
  have : ((j : Int) - (({} : State).siteIdx : Int)).toNat = j := by simp
  rw [this] at hrw
  rw [hsi]
  have hlt : (0 : Int) ≤ (j : Int) ∧ (j : Int) < ((({} : State).siteIdx + (sitesOf cands).length : Nat) : Int) := by
    constructor
    · omega
    · simp; omega
  rw [if_pos hlt, hrw]
  simp [listSites_eq, List.getElem?_eq_getElem hj]

/-- **bad_index_rejected.**  Any other index — negative, or `≥ k` — is a reference error. -/
theorem bad_index_rejected (pid : Nat) (cands : List Cand) (j : Int)
    (hj : j < 0 ∨ j ≥ (listSites cands).length) :
    apply pid cands (.index j) = .error .reference := by
  rw [listSites_eq] at hj
  have hw := walk_index j cands {}
  simp only at hw
  obtain ⟨hsi, _⟩ := hw
  simp only [apply, checkWhere, targetOf, checkSite]
  rw [hsi]
  have : ¬ ((0 : Int) ≤ j ∧ j < ((({} : State).siteIdx + (sitesOf cands).length : Nat) : Int)) := by
    have : (({} : State).siteIdx) = 0 := rfl
    rw [this]
    simp
    omega
  rw [if_neg this]

/-- **none_selects_all.**  Aiming at nothing rewrites all `k` listed sites, in listing order. -/
theorem none_selects_all (pid : Nat) (cands : List Cand) :
    apply pid cands .none = .ok (listSites cands) := by
  simp [apply, checkWhere, targetOf, checkSite, listSites]

/-- **site_or_refusal.**  Every point the strategy considered is either listed as a site or
explained as a refusal, never both, and the two listings account for all of them. -/
theorem site_or_refusal (cands : List Cand) :
    (∀ c ∈ cands, (c.refused = false → c.path ∈ listSites cands) ∧
                  (c.refused = true → c.path ∈ listRefusals cands)) ∧
    (listSites cands).length + (listRefusals cands).length = cands.length := by
  rw [listSites_eq, listRefusals_eq]
  induction cands with
  | nil => simp [sitesOf, refusedOf]
  | cons c r ih =>
    obtain ⟨ih1, ih2⟩ := ih
    by_cases hc : c.refused = true
    · simp only [sitesOf, refusedOf, hc, if_true]
      refine ⟨?_, by simp; omega⟩
      intro x hx
      rcases List.mem_cons.mp hx with rfl | hx
      · simp [hc]
      · exact ⟨(ih1 x hx).1, fun h => List.mem_cons_of_mem _ ((ih1 x hx).2 h)⟩
    · simp only [sitesOf, refusedOf, hc, Bool.false_eq_true, if_false]
      refine ⟨?_, by simp; omega⟩
      intro x hx
      rcases List.mem_cons.mp hx with rfl | hx
      · simp [hc]
      · exact ⟨fun h => List.mem_cons_of_mem _ ((ih1 x hx).1 h), (ih1 x hx).2⟩

/-- a refusal consumes no index: the sites listed are the non-refused candidates in visit order -/
theorem refusal_takes_no_index (cands : List Cand) :
    listSites cands = (cands.filter (fun c => !c.refused)).map (·.path) := by
  rw [listSites_eq]
  induction cands with
  | nil => rfl
  | cons c r ih =>
    by_cases hc : c.refused = true
    · simp [sitesOf, hc, ih]
    · simp [sitesOf, hc, ih]

/-- `True`/`False` and non-integers are rejected by type -/
theorem bool_where_rejected (pid : Nat) (cands : List Cand) :
    apply pid cands .bool = .error .typeError ∧ apply pid cands .other = .error .typeError := by
  simp [apply, checkWhere]

/-- **cursor_selects.**  A statement cursor or region of this program aims at exactly the listed
sites at or beneath it; if there are none it is a reference error, or `TransformDeclined` when a
refused candidate lies beneath it; a cursor of another program is a reference error. -/
theorem cursor_selects (pid : Nat) (cands : List Cand) (bp : BlockPath) (lo hi : Nat) :
    let sel := (listSites cands).filter (beneathStmt bp lo hi)
    let ref := (listRefusals cands).filter (beneathStmt bp lo hi)
    apply pid cands (.target pid bp lo hi) =
      (if sel = [] then (if ref = [] then .error .reference else .error .declined) else .ok sel) := by
  have hw := walk_target (.target pid bp lo hi) bp lo hi cands {}
  simp only at hw
  obtain ⟨h1, h2, h3⟩ := hw
  simp only [apply, checkWhere, targetOf, bne_self_eq_false, Bool.false_eq_true, if_false, checkSite,
    listSites_eq, listRefusals_eq]
  rw [h1, h2, h3]
  simp only [List.nil_append, Nat.zero_add]
  cases hs : (sitesOf cands).filter (beneathStmt bp lo hi) with
  | nil =>
    cases hr : (refusedOf cands).filter (beneathStmt bp lo hi) with
    | nil => simp
    | cons x xs => simp
  | cons x xs => simp

theorem cursor_other_program (pid pid' : Nat) (cands : List Cand) (bp : BlockPath) (lo hi : Nat)
    (hne : pid' ≠ pid) : apply pid cands (.target pid' bp lo hi) = .error .otherProgram := by
  simp [apply, checkWhere, targetOf, hne]

/-! ### non-vacuity -/

/-- a concrete program: `s0; if1 { s10; s11; s12 }; s2` -/
def exTree : Block := [.leaf 0, .one 1 [.leaf 10, .leaf 11, .leaf 12], .leaf 2]
/-- insert one statement before the `if`; replace `s11` by two statements -/
def exEdits : List Edit := [⟨[], 1, 0, 1⟩, ⟨[⟨1, .body⟩], 1, 1, 2⟩]
def exFresh (e : Edit) : List Stmt :=
  if e.blockPath = [] then [.leaf 100] else [.leaf 200, .leaf 201]
def exLog : EditLog := ⟨⟨0, exTree⟩, ⟨1, applyEdits exFresh exEdits exTree⟩, exEdits, [⟨[], 2⟩], true⟩

example : SpecLog exFresh exLog :=
  ⟨by rfl, by decide, rfl⟩

-- the edited program is what one expects
example : (applyEdits exFresh exEdits exTree).map Stmt.tag = [0, 100, 1, 2] := by decide
-- `s12` (untouched, shifted at two levels): body[1].body[2] ↦ body[2].body[3]
example : exLog.forward (.stmt 0 ⟨[⟨1, .body⟩], 2⟩) = .ok (.stmt 1 ⟨[⟨2, .body⟩], 3⟩) := by rfl
example : touched exEdits ⟨[⟨1, .body⟩], 2⟩ = false := by decide
-- `s11` (replaced by two): ↦ the region body[2].body[1:3]
example : exLog.forward (.stmt 0 ⟨[⟨1, .body⟩], 1⟩) = .ok (.region 1 [⟨2, .body⟩] 1 3) := by rfl
example : touched exEdits ⟨[⟨1, .body⟩], 1⟩ = true := by decide
-- expression cursors: `s12`'s expression follows its statement; `s2`'s expressions were rewritten
example : exLog.forward (.expr 0 ⟨[⟨1, .body⟩], 2⟩) = .ok (.expr 1 ⟨[⟨2, .body⟩], 3⟩) := by rfl
example : exLog.forward (.expr 0 ⟨[], 2⟩) = .error .exprRewritten := by rfl
example : exLog.forward (.expr 0 ⟨[⟨1, .body⟩], 1⟩) = .error .insideRewritten := by rfl
-- a deleted statement and a statement inside a replaced one
example : (⟨⟨0, exTree⟩, ⟨1, [.leaf 0, .leaf 2]⟩, [⟨[], 1, 1, 0⟩], [], true⟩ : EditLog).forward (.stmt 0 ⟨[], 1⟩)
    = .error .deleted := by rfl
example : (⟨⟨0, exTree⟩, ⟨1, [.leaf 0, .leaf 2]⟩, [⟨[], 1, 1, 0⟩], [], true⟩ : EditLog).forward (.stmt 0 ⟨[⟨1, .body⟩], 0⟩)
    = .error .insideRewritten := by rfl
-- overlapping edits are rejected as the code rejects them
example : (⟨⟨0, exTree⟩, ⟨1, exTree⟩, [⟨[], 1, 1, 1⟩, ⟨[⟨1, .body⟩], 0, 1, 1⟩], [], true⟩ : EditLog).check
    = .error .editOverlap := by rfl
-- a chain of two passes: the second deletes the first statement of the program `exLog` produced
def exEdits2 : List Edit := [⟨[], 0, 1, 0⟩]
def exLog2 : EditLog := ⟨exLog.result, ⟨2, applyEdits (fun _ => []) exEdits2 exLog.result.body⟩, exEdits2, [], true⟩
example : Linked ⟨0, exTree⟩ [(exLog2, fun _ => []), (exLog, exFresh)] :=
  ⟨⟨by rfl, by decide, rfl⟩, rfl, by decide, ⟨by rfl, by decide, rfl⟩, rfl, by decide, trivial⟩
-- `s11` ↦ region body[2].body[1:3] ↦ region body[1].body[1:3] (through `_forward_region`)
example : chainForward (mkChain ⟨0, exTree⟩ [(exLog2, fun _ => []), (exLog, exFresh)]) (.stmt 0 ⟨[⟨1, .body⟩], 1⟩)
    = .ok (.region 2 [⟨1, .body⟩] 1 3) := by rfl
-- `s0` is deleted by the second pass
example : chainForward (mkChain ⟨0, exTree⟩ [(exLog2, fun _ => []), (exLog, exFresh)]) (.stmt 0 ⟨[], 0⟩)
    = .error .deleted := by rfl
-- sites: three candidates, the middle one refused; index 1 is the THIRD candidate
def exCands : List Cand := [⟨⟨[], 0⟩, false⟩, ⟨⟨[], 1⟩, true⟩, ⟨⟨[], 2⟩, false⟩]
example : listSites exCands = [⟨[], 0⟩, ⟨[], 2⟩] := by decide
example : apply 0 exCands (.index 1) = .ok [⟨[], 2⟩] := by rfl
example : apply 0 exCands (.index 2) = .error .reference := by rfl
example : apply 0 exCands (.index (-1)) = .error .reference := by rfl
-- a region over candidates 1..2 takes the one site beneath it; over the refused one alone it declines
example : apply 0 exCands (.target 0 [] 1 3) = .ok [⟨[], 2⟩] := by rfl
example : apply 0 exCands (.target 0 [] 1 2) = .error .declined := by rfl

end Fpy.Props.C19
