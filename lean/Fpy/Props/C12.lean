/-
C12 — Translation to and from FPCore preserves meaning (partial).

Models (lean/Fpy/Model/FPCore.lean, FPCoreCompile.lean): an FPCore evaluator in which a `!` annotation
is in force for exactly its sub-expression; the property table `FPCoreContext.from_context / to_context`;
the REPAIRED compiler `backend/fpc.py` on the loop-free statement subset (`compileB`) and the compiler
as it was (`compileBLegacy`).

Proved here
* `compile_sound` — for every loop-free block of the subset (assignment, nested / sequential `with`
  followed by further statements, `if/else` whose branches return, `return`; expressions built from
  variables, explicitly rounded constants, rounded operators and order comparisons) and every
  environment: if the core-language evaluator returns `v`, the compiled FPCore expression evaluates
  to the SAME `v` (for every sufficiently large fuel) under the property set denoting the active
  context.  `compile_sound_straightline`, `compile_sound_if`, `compile_fun_sound` are its instances.
* `with_scope` — the continuation of a `with` block is compiled separately and placed OUTSIDE the
  block's annotation; `with_scope_example` exhibits a program where inner and outer context give
  different numbers and the compiled core returns the core-language value, `with_scope_legacy_counterexample`
  that the compiler before the repair did not.
* `ctx_props_roundtrip` and the domain theorems — the repaired table is inverse on its domain, the
  domain contains every IEEE format / signed fixed-point format / the integers / the reals with a
  nameable mode, and refuses what FPCore cannot express; `table_legacy_fixed_counterexample`.
* round 2 (Model/FPCoreLoops.lean: `compileLB`, the COMPOSITE of the passes `ForBundling`, `WhileBundling`,
  `IfBundling` and the back end, up to the names of the bundled — `let`-bound — variables):
  `compile_sound_loops` — the same statement for the subset WITH `while`, `for x in range(round(n))`, one-armed
  `if`, `if/else` followed by statements, tuple construction and destructuring, for both settings of
  `unsafe_int_cast` and every order in which the passes may meet the variables of a Python `set`
  (`OrdOK`); `compile_fun_sound_loops` for a whole function called from Python.  The hypothesis `wsL`
  (well-scoped) excludes the two shapes the compiler gets wrong — `looptarget_counterexample` (the loop
  target is assigned in the body: the compiled core has an unbound variable), `looptarget2_counterexample`
  (the loop target is also defined before the loop and read after it: 15 in FPy, 23 compiled) — both
  replayed on the real compiler by harness/c12.py (known findings C12-looptarget, C12-looptarget2);
  `loops_example` runs a program with every construct through both sides, `loops_example_side_conditions`
  shows the hypotheses hold for it.
* round 2, the READER (Model/FPCoreRead.lean: `readE`, `Function.from_fpcore` on `let`, `let*`, `if`, `while`, `while*`, `!`
  over pure operands; fresh names from a counter): `read_sound` — if FPCore evaluates the expression to `v` under the
  properties in force, the statements read from it followed by `return <result>` return `v` in the core language under
  the context those properties denote, from every environment in which each FPCore variable in scope is held by its
  (older, distinct) FPy name; `read_annotation` — a `!` becomes a `with` block of the context denoted by the properties in
  force UPDATED with the named ones (inherited properties); `read_compile_roundtrip` — the re-read of the compiled core
  of a source block returns what the source block returns (corollary of `compile_sound_loops` and `read_sound`);
  `roundtrip_example_source / _core / _reread` (source, compiled core and re-read body agree by evaluation).
Not proved (partial): `for` over anything but `range(round(n))` (lists, `range(a, b)`, `range(a, b, s)`), lists,
comparisons other than one order comparison; in the reader: tensors / arrays / `for` (so the round trip covers tuple-free
programs), a parallel `while` with several variables, a loop condition that needs statements (C12-readwhilecond), the
binding of the parameters (`read_sound` starts from the related environments).
Side condition `litsOKL`: the small integer literals the compiler itself writes (tuple indices, the
`0` of a block without effect) are rounded under the context in force like every FPCore literal and
must be read back exactly — `lits_example` shows it holds (by evaluation) for the example's contexts.
-/
import Fpy.Proof.FPCoreMain
import Fpy.Proof.FPCoreLAll
import Fpy.Proof.FPCoreReadAll
namespace Fpy.Props.C12
open Fpy Fpy.Lang Fpy.C12

/-! ## the compiler -/

/-- **compile_sound.** A loop-free block that returns `v` in the core language compiles to an FPCore
expression that evaluates to `v` under the property set `P` denoting the active context `C`, in every
environment that agrees with the source environment on the variables the expression mentions. -/
theorem compile_sound (Φ : Funs) (body : List SStmt) (fuel : Nat) (σ : Env) (μ μ' : Heap) (C : Ctx) (v : Val)
    (E : FExpr) (P : Props) (ρ : Env)
    (hrun : evalB Φ fuel σ μ C (SStmt.toLangs body) = .ok (.ret v, μ'))
    (hnames : ∀ x, x ∈ SStmt.namesL body → isTmp x = false) (hdefs : ∀ x, x ∈ SStmt.defsL body → isTmp x = false)
    (hcomp : compileB body none [] = some E) (hP : P.toCtx = .ok C) (hlits : SStmt.litsOKL body C false [])
    (hρ : ∀ x, x ∈ SStmt.mentionL body [] → isTmp x = false → ρ.get? x = σ.get? x) :
    ∃ N, ∀ n, N ≤ n → eval n ρ P E = .ok v := by
  have h := ((sound_all Φ fuel).2 body σ μ C (.ret v) μ' hrun).2 hnames hdefs none [] E ρ P hcomp (fun _ => rfl) hP hlits hρ
  unfold Post at h
  exact h.2

/-- … and the source program does not touch the heap (nothing in this subset allocates). -/
theorem compile_sound_heap (Φ : Funs) (body : List SStmt) (fuel : Nat) (σ : Env) (μ μ' : Heap) (C : Ctx) (o : Outcome)
    (hrun : evalB Φ fuel σ μ C (SStmt.toLangs body) = .ok (o, μ')) : μ' = μ :=
  ((sound_all Φ fuel).2 body σ μ C o μ' hrun).1

/-- blocks without `if` -/
def straightS : SStmt → Bool
  | .assign _ _ => true
  | .ret _ => true
  | .ifte _ _ _ => false
  | .with_ _ body => body.attach.all fun ⟨s, _⟩ => straightS s
def straightL (ss : List SStmt) : Bool := ss.all straightS

/-- **compile_sound_straightline**: straight-line blocks (assign / `with` / return), in the source environment itself. -/
theorem compile_sound_straightline (Φ : Funs) (body : List SStmt) (_hs : straightL body = true) (fuel : Nat) (σ : Env)
    (μ μ' : Heap) (C : Ctx) (v : Val) (E : FExpr) (P : Props)
    (hrun : evalB Φ fuel σ μ C (SStmt.toLangs body) = .ok (.ret v, μ'))
    (hnames : ∀ x, x ∈ SStmt.namesL body → isTmp x = false) (hdefs : ∀ x, x ∈ SStmt.defsL body → isTmp x = false)
    (hcomp : compileB body none [] = some E) (hP : P.toCtx = .ok C) (hlits : SStmt.litsOKL body C false []) :
    ∃ N, ∀ n, N ≤ n → eval n σ P E = .ok v :=
  compile_sound Φ body fuel σ μ μ' C v E P σ hrun hnames hdefs hcomp hP hlits (fun _ _ _ => rfl)

/-- **compile_sound_if**: `if c: …return… else: …return…` compiles to `(if c T F)` with the compiled branches,
and that expression returns what the statement returns. -/
theorem compile_sound_if (Φ : Funs) (c : SExpr) (t f : List SStmt) (fuel : Nat) (σ : Env) (μ μ' : Heap) (C : Ctx)
    (v : Val) (E : FExpr) (P : Props)
    (hrun : evalB Φ fuel σ μ C (SStmt.toLangs [.ifte c t f]) = .ok (.ret v, μ'))
    (hnames : ∀ x, x ∈ SStmt.namesL [.ifte c t f] → isTmp x = false)
    (hdefs : ∀ x, x ∈ SStmt.defsL [.ifte c t f] → isTmp x = false)
    (hcomp : compileB [.ifte c t f] none [] = some E) (hP : P.toCtx = .ok C)
    (hlits : SStmt.litsOKL [.ifte c t f] C false []) :
    (∃ T F, compileB t none [] = some T ∧ compileB f none [] = some F ∧ E = .ite c.toF T F) ∧
    ∃ N, ∀ n, N ≤ n → eval n σ P E = .ok v := by
  refine ⟨?_, compile_sound Φ _ fuel σ μ μ' C v E P σ hrun hnames hdefs hcomp hP hlits (fun _ _ _ => rfl)⟩
  simp only [compileB, compileS] at hcomp
  cases hT : compileB t none [] with
  | none => rw [hT] at hcomp; simp at hcomp
  | some T =>
    cases hF : compileB f none [] with
    | none => rw [hT, hF] at hcomp; simp at hcomp
    | some F => rw [hT, hF] at hcomp; simp only at hcomp; cases hcomp; exact ⟨T, F, rfl, rfl, rfl⟩

/-- **with_scope** (structure): a `with` block followed by statements compiles to the annotated block
bound AROUND the separately compiled continuation `K'` — the continuation is not under `(! props …)`. -/
theorem with_scope (d : CDesc) (body : List SStmt) (s : SStmt) (ss : List SStmt) (E : FExpr)
    (hcomp : compileB (.with_ d body :: s :: ss) none [] = some E) :
    ∃ p I K', fromDesc d = some p ∧ compileB (s :: ss) none [] = some K' ∧
      compileB body (some (retOf (passed body (SStmt.mentionL (s :: ss) [])))) (passed body (SStmt.mentionL (s :: ss) [])) = some I ∧
      E = bundle (passed body (SStmt.mentionL (s :: ss) [])) (.ann p I) K' := by
  simp only [compileB] at hcomp
  cases hK : compileB (s :: ss) none [] with
  | none => simp only [compileB] at hK; rw [hK] at hcomp; cases hcomp
  | some K' =>
    simp only [compileB] at hK
    rw [hK] at hcomp
    simp only [compileS] at hcomp
    cases hfd : fromDesc d with
    | none => rw [hfd] at hcomp; cases hcomp
    | some p =>
      rw [hfd] at hcomp
      simp only at hcomp
      unfold passed
      generalize sortNames (List.filter (fun x => (SStmt.mentionL (s :: ss) []).contains x) (SStmt.defsL body)) = D at hcomp ⊢
      cases hI : compileB body (some (retOf D)) D with
      | none => rw [hI] at hcomp; cases hcomp
      | some I =>
        rw [hI] at hcomp
        simp only [Option.map] at hcomp
        cases hcomp
        exact ⟨p, I, K', rfl, rfl, rfl, rfl⟩

/-! ### the example: inner and outer context give different numbers

    with binary32:            -- outer
        with binary16:        -- inner
            x = a + b         -- 1 + 2^-12 = 1 in binary16 (11 digits)
        y = x / 3             -- OUTER context: RN_binary32(1/3)
        return y
-/
def b32 : CDesc := .ieee 8 32 .rne .overflow 0
def b16 : CDesc := .ieee 5 16 .rne .overflow 0
def three : NV := .q 3 1
def demo : List SStmt :=
  [.with_ b32 [.with_ b16 [.assign "x" (.op .add [.var "a", .var "b"])],
               .assign "y" (.op .div [.var "x", .lit three]),
               .ret (.var "y")]]
def demoEnv : Env := [("a", .num (.fv (.fin ⟨false, 0, 1⟩))), ("b", .num (.fv (.fin ⟨false, -12, 1⟩)))]

def numOf : Except Err Val → Option NV | .ok (.num v) => some v | _ => none
def numOf' : Except Err (Outcome × Heap) → Option NV | .ok (.ret (.num v), _) => some v | _ => none

/-- the core language: `y` is 1/3 rounded to binary32 (24 digits) -/
theorem demo_lang : numOf' (evalB ⟨[]⟩ 20 demoEnv [] fp64 (SStmt.toLangs demo)) = some (.fv (.fin ⟨false, -25, 11184811⟩)) := by
  decide

/-- **with_scope_example**: the repaired compiler's core returns the same number … -/
theorem with_scope_example :
    (compileB demo none []).map (fun E => numOf (eval 30 demoEnv {} E)) = some (some (.fv (.fin ⟨false, -25, 11184811⟩))) := by
  decide

/-- **with_scope_legacy_counterexample**: … the compiler before the repair evaluated `y = x / 3` under the
INNER annotation (binary16: 1/3 rounded to 11 digits). -/
theorem with_scope_legacy_counterexample :
    (compileBLegacy demo none).map (fun E => numOf (eval 30 demoEnv {} E)) = some (some (.fv (.fin ⟨false, -12, 1365⟩))) := by
  decide

/-- the side conditions of `compile_sound` hold for the example (non-vacuity of its hypotheses) -/
theorem lits_example : SStmt.litsOKL demo fp64 false [] := by
  simp only [SStmt.litsOKL, SStmt.litsOK, demo, b32, b16, CDesc.toCtx, SStmt.mentionL, SStmt.mention, SStmt.defsL, SStmt.defs,
    SExpr.vars, SExpr.varsL]
  decide

example : (∀ x, x ∈ SStmt.namesL demo → isTmp x = false) ∧ (∀ x, x ∈ SStmt.defsL demo → isTmp x = false) := by
  decide

/-! ## whole functions -/

theorem bindAll_eq_foldl : ∀ (l : List (String × Val)) (ρ : Env),
    bindAll ρ l = l.foldl (fun s (xv : String × Val) => s.set xv.1 xv.2) ρ := by
  intro l
  induction l with
  | nil => intro ρ; rfl
  | cons a rest ih => intro ρ; obtain ⟨x, v⟩ := a; simp only [bindAll, List.foldl_cons]; exact ih _

/-- **compile_fun_sound**: a call `f(*args)` from Python (no `ctx=`: binary64) of a function without declared context
returns what the compiled core evaluates to on the same arguments. -/
theorem compile_fun_sound (name : String) (params : List String) (body : List SStmt) (args : List Val) (fuel : Nat)
    (v : Val) (μ' : Heap) (core : FCore)
    (hrun : callEntry ⟨[{ name := name, params := params, ctx := none, body := SStmt.toLangs body }]⟩ fuel name args [] none = .ok (v, μ'))
    (hnames : ∀ x, x ∈ SStmt.namesL body → isTmp x = false) (hdefs : ∀ x, x ∈ SStmt.defsL body → isTmp x = false)
    (hcomp : compileFun params none body = some core) (hlits : SStmt.litsOKL body fp64 false []) :
    ∃ N, ∀ n, N ≤ n → evalCore n core args = .ok v := by
  unfold callEntry at hrun
  simp only [Funs.find?, List.find?, beq_self_eq_true] at hrun
  unfold compileFun at hcomp
  cases hE : compileB body none [] with
  | none => rw [hE] at hcomp; cases hcomp
  | some E =>
    rw [hE] at hcomp
    simp only at hcomp
    cases hcomp
    by_cases hlen : params.length = args.length
    · simp only [hlen, bne_self_eq_false, Bool.false_eq_true, if_false] at hrun
      cases hb : evalB ⟨[{ name := name, params := params, ctx := none, body := SStmt.toLangs body }]⟩ fuel
          ((params.zip args).foldl (fun s (x, v) => s.set x v) []) [] fp64 (SStmt.toLangs body) with
      | error e => rw [hb] at hrun; cases hrun
      | ok r =>
        obtain ⟨o, μ1⟩ := r
        rw [hb] at hrun
        cases o with
        | normal _ => cases hrun
        | ret w =>
          simp only at hrun
          cases hrun
          obtain ⟨N, hN⟩ := compile_sound _ body fuel _ [] μ' fp64 v E {} _ hb hnames hdefs hE rfl hlits (fun _ _ _ => rfl)
          refine ⟨N, fun n hn => ?_⟩
          unfold evalCore
          simp only [hlen, bne_self_eq_false, Bool.false_eq_true, if_false]
          rw [bindAll_eq_foldl]
          exact hN n hn
    · have : (params.length != args.length) = true := by simpa using hlen
      simp [this] at hrun

/-! ## round 2: loops, one-armed `if`, `if/else` followed by statements, tuples -/

/-- **compile_sound_loops.** A block of the subset with loops that returns `v` in the core language compiles
(`compileLB`: bundling passes + back end) to an FPCore expression that evaluates to `v`, for every sufficiently
large fuel, under the property set `P` denoting the active context `C`, in every environment that agrees with the
source environment on the free variables of the expression.  `G`: the variables defined before the block;
`wsL`: variables are defined before use, source names are not compiler temporaries, tuple targets are distinct,
a loop target is neither defined before its loop nor assigned in it; `litsL`: the integer literals the compiler
writes are read back exactly; `OrdOK`: the set-iteration order of the passes is a reordering. -/
theorem compile_sound_loops (Φ : Funs) (cfg : Cfg) (hord : OrdOK cfg) (body : List LStmt) (G : List String)
    (fuel : Nat) (σ : Env) (μ μ' : Heap) (C : Ctx) (v : Val) (E : FExpr) (P : Props) (ρ : Env)
    (hrun : evalB Φ fuel σ μ C (LStmt.toLangs body) = .ok (.ret v, μ'))
    (hG : ∀ y, y ∈ G → isTmpL y = false) (hws : LStmt.wsL G body) (hb : Bound G σ)
    (hcomp : compileLB cfg G body none = some E) (hP : P.toCtx = .ok C) (hlits : LStmt.litsL G P body)
    (hρ : AgreeL (fvF E) ρ σ) :
    ∃ N, ∀ n, N ≤ n → eval n ρ P E = .ok v := by
  have h := (lblock_sound Φ cfg hord fuel body σ μ C (.ret v) μ' hrun G none E ρ P hG hws hb hcomp
    (fun k hk => by cases hk) hP hlits hρ).2
  unfold PostL at h
  exact h.2

/-- … and the source program only ever extends the heap (the list a `range` allocates). -/
theorem compile_sound_loops_heap (Φ : Funs) (cfg : Cfg) (hord : OrdOK cfg) (body : List LStmt) (G : List String)
    (fuel : Nat) (σ : Env) (μ μ' : Heap) (C : Ctx) (o : Outcome) (E : FExpr) (P : Props)
    (hrun : evalB Φ fuel σ μ C (LStmt.toLangs body) = .ok (o, μ'))
    (hG : ∀ y, y ∈ G → isTmpL y = false) (hws : LStmt.wsL G body) (hb : Bound G σ)
    (hcomp : compileLB cfg G body none = some E) (hP : P.toCtx = .ok C) (hlits : LStmt.litsL G P body) :
    ∀ (r : Nat) (l : List Val), μ[r]? = some l → μ'[r]? = some l :=
  (lblock_sound Φ cfg hord fuel body σ μ C o μ' hrun G none E σ P hG hws hb hcomp
    (fun k hk => by cases hk) hP hlits (agreeL_refl _ _)).1

/-- the order parameter: the identity and the reversal are reorderings (any permutation is) -/
theorem ordOK_id (b : Bool) : OrdOK { unsafeInt := b, ord := fun _ l => l } := fun _ _ => ⟨fun _ => Iff.rfl, Nat.le_refl _⟩
theorem ordOK_reverse (b : Bool) : OrdOK { unsafeInt := b, ord := fun _ l => l.reverse } :=
  fun _ _ => ⟨fun _ => List.mem_reverse, by simp⟩

theorem bound_foldl : ∀ (l : List (String × Val)) (σ : Env) (x : String),
    (x ∈ l.map (·.1) ∨ ∃ w, σ.get? x = some w) →
    ∃ w, (l.foldl (fun s (xv : String × Val) => s.set xv.1 xv.2) σ).get? x = some w := by
  intro l
  induction l with
  | nil =>
    intro σ x h
    rcases h with h | h
    · simp at h
    · exact h
  | cons a rest ih =>
    intro σ x h
    simp only [List.foldl_cons]
    apply ih
    by_cases hx : x = a.1
    · right; subst hx; exact ⟨a.2, get?_set_self _ _ _⟩
    · rcases h with h | h
      · simp only [List.map_cons, List.mem_cons] at h
        rcases h with h | h
        · exact absurd h hx
        · exact Or.inl h
      · right; obtain ⟨w, hw⟩ := h; exact ⟨w, by rw [get?_set_ne _ _ _ _ hx]; exact hw⟩

/-- **compile_fun_sound_loops**: a call `f(*args)` from Python (no `ctx=`: binary64) of a function of the subset with
loops, without declared context, returns what the compiled core evaluates to on the same arguments. -/
theorem compile_fun_sound_loops (cfg : Cfg) (hord : OrdOK cfg) (name : String) (params : List String) (body : List LStmt)
    (args : List Val) (fuel : Nat) (v : Val) (μ' : Heap) (core : FCore)
    (hrun : callEntry ⟨[{ name := name, params := params, ctx := none, body := LStmt.toLangs body }]⟩ fuel name args [] none = .ok (v, μ'))
    (hparams : ∀ y, y ∈ params → isTmpL y = false) (hws : LStmt.wsL params body)
    (hcomp : compileFunL cfg params none body = some core) (hlits : LStmt.litsL params {} body) :
    ∃ N, ∀ n, N ≤ n → evalCore n core args = .ok v := by
  unfold callEntry at hrun
  simp only [Funs.find?, List.find?, beq_self_eq_true] at hrun
  unfold compileFunL at hcomp
  cases hE : compileLB cfg params body none with
  | none => rw [hE] at hcomp; cases hcomp
  | some E =>
    rw [hE] at hcomp
    simp only at hcomp
    cases hcomp
    by_cases hlen : params.length = args.length
    · simp only [hlen, bne_self_eq_false, Bool.false_eq_true, if_false] at hrun
      cases hb : evalB ⟨[{ name := name, params := params, ctx := none, body := LStmt.toLangs body }]⟩ fuel
          ((params.zip args).foldl (fun s (x, v) => s.set x v) []) [] fp64 (LStmt.toLangs body) with
      | error e => rw [hb] at hrun; cases hrun
      | ok r =>
        obtain ⟨o, μ1⟩ := r
        rw [hb] at hrun
        cases o with
        | normal _ => cases hrun
        | ret w =>
          simp only at hrun
          cases hrun
          have hbound : Bound params ((params.zip args).foldl (fun s (xv : String × Val) => s.set xv.1 xv.2) []) := by
            intro x hx
            apply bound_foldl
            left
            rw [List.map_fst_zip (by omega)]
            exact hx
          obtain ⟨N, hN⟩ := compile_sound_loops _ cfg hord body params fuel _ [] μ' fp64 v E {} _ hb hparams hws hbound hE rfl hlits
            (agreeL_refl _ _)
          refine ⟨N, fun n hn => ?_⟩
          unfold evalCore
          simp only [hlen, bne_self_eq_false, Bool.false_eq_true, if_false]
          rw [bindAll_eq_foldl]
          exact hN n hn
    · have : (params.length != args.length) = true := by simpa using hlen
      simp [this] at hrun

/-! ### an example with every construct; the two excluded shapes -/

def cfgU : Cfg := { unsafeInt := true, ord := fun _ l => l }
def ten : Val := .num (.fv (.fin ⟨false, 0, 10⟩))
def two : Val := .num (.fv (.fin ⟨false, 1, 1⟩))
def envL : Env := [("a", ten), ("b", two)]
/-
    s = a; k = round(0)
    while k < round(3): s = s + b; k = k + round(1)          # two carried variables (WhileBundling)
    for i in range(round(2)): s = s + i
    if a < s: s = s * b
    if s < a: z = s; c = a
    else:     c = b; z = k                                   # two introduced variables (IfBundling)
    p, q = (z, c)
    return p - q
-/
def loopDemo : List LStmt :=
  [.assign "s" (.var "a"), .assign "k" (.lit (.q 0 1)),
   .while_ (.cmp .lt (.var "k") (.lit (.q 3 1)))
     [.assign "s" (.op .add [.var "s", .var "b"]), .assign "k" (.op .add [.var "k", .lit (.q 1 1)])],
   .forRange "i" 2 [.assign "s" (.op .add [.var "s", .var "i"])],
   .if1 (.cmp .lt (.var "a") (.var "s")) [.assign "s" (.op .mul [.var "s", .var "b"])],
   .ifte (.cmp .lt (.var "s") (.var "a")) [.assign "z" (.var "s"), .assign "c" (.var "a")]
     [.assign "c" (.var "b"), .assign "z" (.var "k")],
   .tassign ["p", "q"] (.tuple [.var "z", .var "c"]),
   .ret (.op .sub [.var "p", .var "q"])]

/-- **loops_example**: both sides return 1 -/
theorem loops_example :
    numOf' (evalB ⟨[]⟩ 60 envL [] fp64 (LStmt.toLangs loopDemo)) = some (.fv (.fin ⟨false, 0, 1⟩)) ∧
    (compileLB cfgU ["a", "b"] loopDemo none).map (fun E => numOf (eval 200 envL {} E)) = some (some (.fv (.fin ⟨false, 0, 1⟩))) := by
  constructor <;> decide

theorem litsP_fp64 (n : Nat) (h : CtxLits fp64 n) : LitsP {} n := ⟨fp64, rfl, h⟩

/-- the side conditions of `compile_sound_loops` hold for the example (non-vacuity of its hypotheses) -/
theorem loops_example_side_conditions :
    LStmt.wsL ["a", "b"] loopDemo ∧ LStmt.litsL ["a", "b"] {} loopDemo ∧ Bound ["a", "b"] envL ∧ OrdOK cfgU := by
  refine ⟨?_, ?_, ?_, ordOK_id true⟩
  · simp [loopDemo, LStmt.wsL, LStmt.ws, LStmt.gamma, LStmt.gammaL, LStmt.asgL, LStmt.asg, LExpr.vars, LExpr.varsL, isTmpL, tmpNames]
  · have h8 : LitsOK {} 12 := ⟨⟨fp64, rfl, by decide⟩, ⟨_, rfl, by decide⟩⟩
    simp only [loopDemo, LStmt.litsL, LStmt.lits, LStmt.gamma, LStmt.gammaL, LStmt.asgL, LStmt.asg, List.length, and_true, true_and]
    refine ⟨h8.mono (by decide), h8.mono (by decide), h8.mono (by decide), h8.mono (by decide), h8.mono (by decide)⟩
  · intro x hx
    simp only [List.mem_cons, List.not_mem_nil, or_false] at hx
    rcases hx with rfl | rfl
    · exact ⟨ten, rfl⟩
    · exact ⟨two, rfl⟩

/-
    for i in range(round(3)): i = i + b
    return a
-/
def isUnbound : Except Err Val → Bool | .error .unbound => true | _ => false
def loopTarget : List LStmt := [.forRange "i" 3 [.assign "i" (.op .add [.var "i", .var "b"])], .ret (.var "a")]

/-- **looptarget_counterexample** (C12-looptarget): the loop target is assigned in the body — the pass takes it for a
loop-carried variable and initialises it from the (unbound) target: FPy returns `a`, the compiled core fails.  The
program satisfies every hypothesis of `compile_sound_loops` except the clause of `wsL` that excludes it. -/
theorem looptarget_counterexample :
    numOf' (evalB ⟨[]⟩ 60 envL [] fp64 (LStmt.toLangs loopTarget)) = some (.fv (.fin ⟨false, 0, 10⟩)) ∧
    (compileLB cfgU ["a", "b"] loopTarget none).map (fun E => isUnbound (eval 200 envL {} E)) = some true ∧
    ¬ LStmt.wsL ["a", "b"] loopTarget := by
  refine ⟨by decide, by decide, ?_⟩
  simp [loopTarget, LStmt.wsL, LStmt.ws, LStmt.asgL, LStmt.asg]

/-
    i = a; s = a
    for i in range(round(3)): s = s + i
    return s + i
-/
def loopTarget2 : List LStmt :=
  [.assign "i" (.var "a"), .assign "s" (.var "a"), .forRange "i" 3 [.assign "s" (.op .add [.var "s", .var "i"])],
   .ret (.op .add [.var "s", .var "i"])]

/-- **looptarget2_counterexample** (C12-looptarget2): the loop target is also defined before the loop and read after it — in
FPy it keeps the last element (2), in the compiled core the binding made inside the loop body is gone after the loop
and the OLD value (10) is read: 15 against 23. -/
theorem looptarget2_counterexample :
    numOf' (evalB ⟨[]⟩ 60 envL [] fp64 (LStmt.toLangs loopTarget2)) = some (.fv (.fin ⟨false, 0, 15⟩)) ∧
    (compileLB cfgU ["a", "b"] loopTarget2 none).map (fun E => numOf (eval 200 envL {} E)) = some (some (.fv (.fin ⟨false, 0, 23⟩))) ∧
    ¬ LStmt.wsL ["a", "b"] loopTarget2 := by
  refine ⟨by decide, by decide, ?_⟩
  simp [loopTarget2, LStmt.wsL, LStmt.ws, LStmt.gamma, LStmt.asgL, LStmt.asg, LExpr.vars, LExpr.varsL, isTmpL, tmpNames]

/-! ## round 2: the reader `Function.from_fpcore` -/

/-- **read_sound.** If FPCore evaluates `e` to `v` (environment `ρ`, properties in force `P` denoting the context `C`), then the
statements the reader produces for `e`, followed by `return <result expression>`, return `v` in the core language under `C` —
from every environment `σ` in which every FPCore variable in scope (`m`) is held by a distinct name generated before (`RInv`).
`nm`: any injective supply of fresh names. -/
theorem read_sound (Φ : Funs) (nm : Nat → String) (hnm : ∀ i j, nm i = nm j → i = j) (e : FExpr) (k : Nat) (m : RMap) (P : Props)
    (C : Ctx) (ρ σ : Env) (μ : Heap) (n : Nat) (v : Val) (ss : List Stmt) (r : Expr) (k' : Nat)
    (heval : eval n ρ P e = .ok v) (hread : readE nm k m P e = some (ss, r, k')) (hP : P.toCtx = .ok C)
    (hI : RInv nm k m ρ σ) :
    ∃ F, evalB Φ F σ μ C (ss ++ [.ret r]) = .ok (.ret v, μ) := by
  obtain ⟨_, σ', hrun, _, hval⟩ := read_ok Φ nm hnm n e k m P C ρ σ μ v ss r k' heval hread hP hI
  exact runs_ret Φ nm hnm hrun (hval σ' (Ext.refl nm k' σ'))

/-- … the names generated before are left alone (the statements only assign fresh names). -/
theorem read_sound_frame (Φ : Funs) (nm : Nat → String) (hnm : ∀ i j, nm i = nm j → i = j) (e : FExpr) (k : Nat) (m : RMap) (P : Props)
    (C : Ctx) (ρ σ : Env) (μ : Heap) (n : Nat) (v : Val) (ss : List Stmt) (r : Expr) (k' : Nat)
    (heval : eval n ρ P e = .ok v) (hread : readE nm k m P e = some (ss, r, k')) (hP : P.toCtx = .ok C)
    (hI : RInv nm k m ρ σ) :
    k ≤ k' ∧ ∃ σ' F, evalB Φ F σ μ C ss = .ok (.normal σ', μ) ∧ ∀ j, j < k → σ'.get? (nm j) = σ.get? (nm j) := by
  obtain ⟨hk, σ', ⟨F, hrun⟩, hext, _⟩ := read_ok Φ nm hnm n e k m P C ρ σ μ v ss r k' heval hread hP hI
  exact ⟨hk, σ', F, hrun, hext⟩

/-- **read_annotation** (structure): `(! p e)` is read as a `with` block whose context is the one denoted by the properties in
force UPDATED with `p` — a partial annotation inherits the enclosing properties (C12-readprops). -/
theorem read_annotation (nm : Nat → String) (k : Nat) (m : RMap) (P p : Props) (e : FExpr) (s : List Stmt) (r : Expr) (k1 : Nat)
    (C' : Ctx) (h1 : readE nm k m (P.update p) e = some (s, r, k1)) (hC : (P.update p).toCtx = .ok C') :
    readE nm k m P (.ann p e) = some ([.with (.ctxLit C') none (s ++ [.assign (.var (nm k1)) r])], .var (nm k1), k1 + 1) := by
  simp only [readE, h1, hC]

/-- the supply `r`, `rr`, `rrr`, … is injective (non-vacuity of the hypothesis on `nm`) -/
theorem fresh_names_injective : ∀ i j, nmR i = nmR j → i = j := nmR_inj

/-- **read_compile_roundtrip.** The core compiled from a source block that returns `v`, read back, returns `v`: compile
(`compile_sound_loops`) then read (`read_sound`).  `σ`: the source environment; `σ2`: an environment of the re-read function in
which every variable of the core in scope is held by its name. -/
theorem read_compile_roundtrip (Φ : Funs) (cfg : Cfg) (hord : OrdOK cfg) (nm : Nat → String) (hnm : ∀ i j, nm i = nm j → i = j)
    (body : List LStmt) (G : List String) (fuel : Nat) (σ : Env) (μ μ' : Heap) (C : Ctx) (v : Val) (E : FExpr) (P : Props)
    (hrun : evalB Φ fuel σ μ C (LStmt.toLangs body) = .ok (.ret v, μ'))
    (hG : ∀ y, y ∈ G → isTmpL y = false) (hws : LStmt.wsL G body) (hb : Bound G σ)
    (hcomp : compileLB cfg G body none = some E) (hP : P.toCtx = .ok C) (hlits : LStmt.litsL G P body)
    (k : Nat) (m : RMap) (ss : List Stmt) (r : Expr) (k' : Nat) (hread : readE nm k m P E = some (ss, r, k'))
    (σ2 : Env) (μ2 : Heap) (hI : RInv nm k m σ σ2) :
    ∃ F, evalB Φ F σ2 μ2 C (ss ++ [.ret r]) = .ok (.ret v, μ2) := by
  obtain ⟨N, hN⟩ := compile_sound_loops Φ cfg hord body G fuel σ μ μ' C v E P σ hrun hG hws hb hcomp hP hlits (agreeL_refl _ _)
  exact read_sound Φ nm hnm E k m P C σ σ2 μ2 N v ss r k' (hN N (Nat.le_refl _)) hread hP hI

/-
    x = a + b
    with binary64 toward zero:
        y = x * b
    if x < y: z = x
    else:     z = y * b
    return z - y
-/
def d64z : CDesc := .ieee 11 64 .rtz .overflow 0
def rtDemo : List LStmt :=
  [.assign "x" (.op .add [.var "a", .var "b"]),
   .with_ d64z [.assign "y" (.op .mul [.var "x", .var "b"])],
   .ifte (.cmp .lt (.var "x") (.var "y")) [.assign "z" (.var "x")] [.assign "z" (.op .mul [.var "y", .var "b"])],
   .ret (.op .sub [.var "z", .var "y"])]
def nmT (k : Nat) : String :=
  ["r0", "r1", "r2", "r3", "r4", "r5", "r6", "r7", "r8", "r9", "r10", "r11", "r12", "r13", "r14", "r15", "r16", "r17", "r18", "r19"].getD k "rx"
def envR : Env := [("r0", ten), ("r1", two)]

/-- **roundtrip_example**: the source block, its compiled core and the body re-read from the core return the same number (-12) -/
theorem roundtrip_example_source :
    numOf' (evalB ⟨[]⟩ 40 envL [] fp64 (LStmt.toLangs rtDemo)) = some (.fv (.fin ⟨true, 0, 12⟩)) := by decide
theorem roundtrip_example_core :
    (compileLB cfgU ["a", "b"] rtDemo none).map (fun E => numOf (eval 60 envL {} E)) = some (some (.fv (.fin ⟨true, 0, 12⟩))) := by
  decide
theorem roundtrip_example_reread :
    (compileLB cfgU ["a", "b"] rtDemo none).bind (fun E => (readE nmT 2 [("a", "r0"), ("b", "r1")] {} E).map
      (fun x => numOf' (evalB ⟨[]⟩ 60 envR [] fp64 (x.1 ++ [Stmt.ret x.2.1])))) = some (some (.fv (.fin ⟨true, 0, 12⟩))) := by
  decide

/-! ## the evaluator: an annotation is in force for exactly its sub-expression; loops -/

/-- `(! props e)` evaluates `e` under the properties in force updated with `props`, and nothing else:
the same expression next to it is evaluated under the properties that were in force. -/
theorem annotation_scope (n : Nat) (ρ : Env) (P p : Props) (e : FExpr) :
    eval (n + 1) ρ P (.ann p e) = eval n ρ (P.update p) e := eval_ann n ρ P p e

/-- `while`: the condition is tested first; the updates are evaluated in the environment of the
iteration (simultaneously for `while`, in sequence for `while*`), then the loop repeats -/
theorem fpcore_while_rule (n : Nat) (star : Bool) (ρ : Env) (P : Props) (c : FExpr) (binds : List (String × FExpr × FExpr))
    (body : FExpr) :
    C12.whileLoop (n + 1) star ρ P c binds body =
      (do let cv ← eval n ρ P c
          if ← asBool cv then do
            let ρ' ← evalBinds n star ρ ρ P (binds.map fun b => (b.1, b.2.2))
            C12.whileLoop n star ρ' P c binds body
          else eval n ρ P body) := by
  simp only [C12.whileLoop] <;> rfl

/-- `for`: the dimension variables are bound to the position, the updates evaluated, next position -/
theorem fpcore_for_rule (n : Nat) (star : Bool) (ρ : Env) (P : Props) (names : List String) (pos : List Nat)
    (more : List (List Nat)) (binds : List (String × FExpr × FExpr)) (body : FExpr) :
    C12.forLoop (n + 1) star ρ P names (pos :: more) binds body =
      (do let ρ' ← evalBinds n star (bindAll ρ (names.zip (pos.map fun (i : Nat) => intVal (Int.ofNat i))))
                      (bindAll ρ (names.zip (pos.map fun (i : Nat) => intVal (Int.ofNat i)))) P (binds.map fun b => (b.1, b.2.2))
          C12.forLoop n star ρ' P names more binds body) := by
  simp only [C12.forLoop] <;> rfl

/-! ## the property table -/

/-- **ctx_props_roundtrip**: whatever `from_context` returns, `to_context` maps back to the same context. -/
theorem ctx_props_roundtrip (d : CDesc) (p : Props) (h : fromDesc d = some p) : p.toDesc = some d := by
  unfold fromDesc at h
  cases ht : tableOf d with
  | none => rw [ht] at h; cases h
  | some q =>
    rw [ht] at h
    simp only at h
    split at h
    · next hg => cases h; exact hg
    · cases h

/-- the names of the rounding modes and overflow modes: the two tables are inverse -/
theorem rname_roundtrip : ∀ r : RName, RName.ofRM r.toRM = some r := by intro r; cases r <;> rfl
theorem rname_roundtrip_inv : ∀ rm : RM, ∀ r, RName.ofRM rm = some r → r.toRM = rm := by
  intro rm r h; cases rm <;> simp [RName.ofRM] at h <;> subst h <;> rfl
theorem oname_roundtrip : ∀ o : OName, OName.ofOV o.toOV = some o := by intro o; cases o <;> rfl
theorem oname_roundtrip_inv : ∀ ov : OV, ∀ o, OName.ofOV ov = some o → o.toOV = ov := by
  intro ov o h; cases ov <;> simp [OName.ofOV] at h <;> subst h <;> rfl

/-- the domain contains every IEEE format (named or `(float es nbits)`) under each of the six modes … -/
theorem fromDesc_ieee (es nbits : Nat) (r : RName) : ∃ p, fromDesc (.ieee es nbits r.toRM .overflow 0) = some p := by
  have key : ∀ q, tableOf (.ieee es nbits r.toRM .overflow 0) = some q →
      q.toDesc = some (.ieee es nbits r.toRM .overflow 0) := by
    intro q hq
    simp only [tableOf, rname_roundtrip, Option.map] at hq
    cases hq
    simp only [Props.toDesc, Option.getD]
    by_cases h1 : es = 15 ∧ nbits = 128
    · obtain ⟨rfl, rfl⟩ := h1; rfl
    · by_cases h2 : es = 15 ∧ nbits = 79
      · obtain ⟨rfl, rfl⟩ := h2; rfl
      · by_cases h3 : es = 11 ∧ nbits = 64
        · obtain ⟨rfl, rfl⟩ := h3; rfl
        · by_cases h4 : es = 8 ∧ nbits = 32
          · obtain ⟨rfl, rfl⟩ := h4; rfl
          · by_cases h5 : es = 5 ∧ nbits = 16
            · obtain ⟨rfl, rfl⟩ := h5; rfl
            · simp [h1, h2, h3, h4, h5]
  cases ht : tableOf (.ieee es nbits r.toRM .overflow 0) with
  | none => simp [tableOf, rname_roundtrip] at ht
  | some q => exact ⟨q, by unfold fromDesc; rw [ht]; simp [key q ht]⟩

/-- … every signed fixed-point format with a nameable rounding and overflow mode … -/
theorem fromDesc_fixed (scale : Int) (nbits : Nat) (r : RName) (o : OName) :
    fromDesc (.fixed true scale nbits r.toRM o.toOV) =
      some { prec := some (.fixed scale nbits), round := some r, ov := some o } := by
  unfold fromDesc
  simp [tableOf, rname_roundtrip, oname_roundtrip, Props.toDesc]

/-- … the integers and the reals. -/
theorem fromDesc_integer (r : RName) :
    fromDesc (.mpfixed (-1) r.toRM false) = some { prec := some .integer, round := some r } := by
  unfold fromDesc
  simp [tableOf, rname_roundtrip, Props.toDesc]

theorem fromDesc_real : fromDesc .real = some { prec := some .real } := by decide

/-- what FPCore cannot express is REFUSED, not silently changed: an overflow mode or random bits on an
IEEE format, the scale of an unbounded fixed-point format, a negative zero of the integers, unsigned formats. -/
theorem fromDesc_refuses_ieee (es nbits : Nat) (rm : RM) (ov : OV) (k : Nat) (h : ov ≠ .overflow ∨ k ≠ 0) :
    fromDesc (.ieee es nbits rm ov k) = none := by
  unfold fromDesc
  cases ht : tableOf (.ieee es nbits rm ov k) with
  | none => rfl
  | some p =>
    simp only
    rw [if_neg]
    intro hg
    simp only [tableOf] at ht
    cases hr : RName.ofRM rm with
    | none => rw [hr] at ht; cases ht
    | some r =>
      rw [hr] at ht
      simp only [Option.map] at ht
      cases ht
      simp only [Props.toDesc, Option.getD] at hg
      split at hg <;> (first | (cases hg; rcases h with h | h <;> exact h rfl) | cases hg)

theorem fromDesc_refuses_mpfixed (nmin : Int) (rm : RM) (nz : Bool) (h : nmin ≠ -1 ∨ nz = true) :
    fromDesc (.mpfixed nmin rm nz) = none := by
  unfold fromDesc
  cases ht : tableOf (.mpfixed nmin rm nz) with
  | none => rfl
  | some p =>
    simp only
    rw [if_neg]
    intro hg
    simp only [tableOf] at ht
    cases hr : RName.ofRM rm with
    | none => rw [hr] at ht; cases ht
    | some r =>
      rw [hr] at ht
      simp only [Option.map] at ht
      cases ht
      by_cases hn : nmin = -1
      · simp only [hn, if_true, Props.toDesc, Option.getD] at hg
        cases hg
        rcases h with h | h
        · exact h hn
        · cases h
      · simp [hn, Props.toDesc] at hg

theorem fromDesc_refuses_unsigned (scale : Int) (nbits : Nat) (rm : RM) (ov : OV) :
    fromDesc (.fixed false scale nbits rm ov) = none := by
  simp [fromDesc, tableOf]

/-- the other direction: a context a property set denotes is convertible, to properties denoting it -/
theorem toDesc_fromDesc (q : Props) (d : CDesc) (h : q.toDesc = some d) : ∃ p, fromDesc d = some p ∧ p.toDesc = some d := by
  have key : ∃ p, fromDesc d = some p := by
    simp only [Props.toDesc] at h
    split at h <;> cases h
    · exact fromDesc_ieee _ _ _
    · exact fromDesc_ieee 15 128 _
    · exact fromDesc_ieee 15 79 _
    · exact fromDesc_ieee 11 64 _
    · exact fromDesc_ieee 8 32 _
    · exact fromDesc_ieee 5 16 _
    · exact ⟨_, fromDesc_fixed _ _ _ _⟩
    · exact ⟨_, fromDesc_integer _⟩
    · exact ⟨_, fromDesc_real⟩
  obtain ⟨p, hp⟩ := key
  exact ⟨p, hp, ctx_props_roundtrip d p hp⟩

/-- **table_legacy_fixed_counterexample**: before the repair `from_context` wrote `(fixed nbits scale)` —
`FixedContext(True, -4, 16, RNE, SATURATE)` came back as the format with scale 16 and −4 bits (`NoSuchContextError`
in the real code, whose constructor rejects it) — and `MPFixedContext(-4)` came back as binary64. -/
theorem table_legacy_fixed_counterexample :
    (tableLegacy (.fixed true (-4) 16 .rne .saturate)).bind Props.toDesc ≠ some (.fixed true (-4) 16 .rne .saturate) ∧
    (tableLegacy (.mpfixed (-4) .rne false)).bind Props.toDesc = some (.ieee 11 64 .rne .overflow 0) := by
  decide

end Fpy.Props.C12
