/-
C02 — Arithmetic rounds the exact result exactly once.
Property theorems only; helper lemmas live in `Fpy/Proof/{RoundOdd,EngineLemmas,OpLemmas}.lean`, the
arithmetic specification of rounding in `Fpy/Spec/Rounding.lean` (`Spec.roundQuot`), the IEEE special-value
tables in `Fpy/Spec/Specials.lean`.

Vocabulary.  `ops.<op>(args, ctx=C)` is `opEvalFl C op args` (value and flags).  The MPFR engine is modelled as
"exact value, truncated toward zero at the working precision, sticky bit OR-ed into the last digit"
(`rtoRF`, `rtoNat`), the working precision being `round_params()` + 2 digits, or the digits down to `n − 1`
(two passes) for fixed-point contexts (`mpfrRtoRF`).  `Ctx.det` = deterministic (no random bits), not REAL,
precision ≥ 1.  `OpAgree a b` / `Res.agree a b` = same value, same `inexact`, same `overflow` (or same error).
-/
import Fpy.Proof.OpLemmas
import Fpy.Spec.Specials
namespace Fpy.Props.C02
open Fpy Fpy.Spec

/-! ## 1. The load-bearing lemma -/

/-- **Round-to-odd re-rounding** (integers).  A magnitude of `c` units is to be rounded to multiples of
`2^k`.  The intermediate keeps the digits above `2^j` and ORs "anything lost" into its last digit; if at least
two digits separate the two positions (`j + 2 ≤ k`) then for every one of the eight modes and both signs the
intermediate rounds to the same multiple as `c` itself, and it is exact exactly when `c` is. -/
theorem rto_reround (rm : RM) (s : Bool) (c j k : Nat) (h : j + 2 ≤ k) :
    roundQuot rm s (rtoNat c j) (k - j) = roundQuot rm s c k ∧
    ((rtoNat c j) % 2 ^ (k - j) = 0 ↔ c % 2 ^ k = 0) :=
  Fpy.rto_reround rm s c j k h

/-- the hypothesis is sharp: with ONE guard digit the lemma is false (a tie is broken by the sticky bit:
`c = 5`, grid `4`, one digit dropped: the intermediate `3` on grid `2` rounds up under RNE, `5` rounds down). -/
theorem rto_reround_one_guard_digit_counterexample :
    roundQuot .rne false (rtoNat 5 1) (2 - 1) ≠ roundQuot .rne false 5 2 := by decide

/-- **Float shape** (`RealFloat._round_at` with `p` digits at a position `n ≥ e − p`, which is what
`_round_params` yields with or without a subnormal bound): rounding the round-to-odd intermediate of `q ≥ p + 2`
digits returns the same `RealFloat` with the same `inexact` (and `overflow`) flags as rounding `x` itself. -/
theorem rto_round_float (x : RF) (p q : Nat) (n : Int) (emin : Option Int) (rm : RM)
    (hc : x.c ≠ 0) (hp : 1 ≤ p) (hq : p + 2 ≤ q) (hn : x.e - p ≤ n) :
    ∃ y fl fl', x.roundAtCore (some p) n emin rm false = .ok (y, fl) ∧
      (rtoRF x q).roundAtCore (some p) n emin rm false = .ok (y, fl') ∧
      fl'.inexact = fl.inexact ∧ fl'.overflow = fl.overflow :=
  rto_round_prec x p q n emin rm hc hp hq hn

/-- **Fixed shape** (position `n` only) with the two-pass precision choice of `gmputils.mpfr_call`:
two digits when everything lies at or below `n`, else the digits down to `n − 1`. -/
theorem rto_round_fixed (x : RF) (n : Int) (rm : RM) (hc : x.c ≠ 0) :
    ∃ y fl fl', x.roundAtCore none n none rm false = .ok (y, fl) ∧
      (if x.e ≤ n then rtoRF x 2 else rtoRF x ((x.e - n).toNat + 2)).roundAtCore none n none rm false = .ok (y, fl') ∧
      fl'.inexact = fl.inexact ∧ fl'.overflow = fl.overflow :=
  Fpy.rto_round_fixed x n rm hc

/-- **Every deterministic context family** (`MPFloat`, `MPSFloat`, `MPBFloat`, `EFloat`/`IEEE`, `MPFixed`,
`MPBFixed`/`Fixed`/`SMFixed`, with their overflow handling and `_fixup`): the intermediate MPFR is asked for
(`mpfrRtoRF` with the context's `round_params()`) exists, and the context rounds it to the same value with the
same `inexact`/`overflow` as the exact value. -/
theorem rto_context (C : Ctx) (hC : C.det) (x : RF) (hx : x.c ≠ 0) :
    ∃ x', mpfrRtoRF x C.roundParams.1 C.roundParams.2 = .ok x' ∧
      Res.agree (C.roundAtCore (.fin x') none false 0) (C.roundAtCore (.fin x) none false 0) := by
  obtain ⟨x', h1, _, h2⟩ := rto_normalize C hC x hx
  exact ⟨x', h1, h2⟩

/-! ## 2. Operations whose exact result is a dyadic value: one rounding of the exact result -/

/-- `ops.add(x, y, ctx)` on finite `Float`s is the exact sum `RealFloat.__add__` rounded once by the context
(value, `inexact`, `overflow`; an error of the context, e.g. `OverflowError` under `ASSERT`, likewise).
The sum of opposite zeros / an exact cancellation is `+0` on both sides (the model's `RF.add` and MPFR under
RTZ agree); what IEEE wants there under RTN is left open by the property. -/
theorem add_correct (C : Ctx) (hC : C.det) (x y : RF) :
    OpAgree (opEvalFl C .add [.fv (.fin x), .fv (.fin y)]) (C.roundAtCore (.fin (x.add y)) none false 0) := by
  apply op_exact_correct C hC .add [.fin x, .fin y] (x.add y) rfl
  simp only [mpfrOp]
  exact congrArg some (addArm_form x y _ _)

theorem sub_correct (C : Ctx) (hC : C.det) (x y : RF) :
    OpAgree (opEvalFl C .sub [.fv (.fin x), .fv (.fin y)]) (C.roundAtCore (.fin (x.sub y)) none false 0) := by
  apply op_exact_correct C hC .sub [.fin x, .fin y] (x.sub y) rfl
  simp only [mpfrOp]
  exact congrArg some (addArm_form x y.neg _ _)

theorem mul_correct (C : Ctx) (hC : C.det) (x y : RF) :
    OpAgree (opEvalFl C .mul [.fv (.fin x), .fv (.fin y)]) (C.roundAtCore (.fin (x.mul y)) none false 0) := by
  apply op_exact_correct C hC .mul [.fin x, .fin y] (x.mul y) rfl
  simp only [mpfrOp, mpfrOfExact]

/-- fused multiply-add: ONE rounding of the exact `x·y + z` (not two) -/
theorem fma_correct (C : Ctx) (hC : C.det) (x y z : RF) :
    OpAgree (opEvalFl C .fma [.fv (.fin x), .fv (.fin y), .fv (.fin z)])
      (C.roundAtCore (.fin ((x.mul y).add z)) none false 0) := by
  apply op_exact_correct C hC .fma [.fin x, .fin y, .fin z] ((x.mul y).add z) rfl
  simp only [mpfrOp]
  exact congrArg some (addArm_form (x.mul y) z _ _)

theorem neg_correct (C : Ctx) (hC : C.det) (x : RF) :
    OpAgree (opEvalFl C .neg [.fv (.fin x)]) (C.roundAtCore (.fin x.neg) none false 0) := by
  apply op_exact_correct C hC .neg [.fin x] x.neg rfl
  simp only [mpfrOp, mpfrOfExact, RF.neg]
  rfl

theorem fabs_correct (C : Ctx) (hC : C.det) (x : RF) :
    OpAgree (opEvalFl C .fabs [.fv (.fin x)]) (C.roundAtCore (.fin x.abs) none false 0) := by
  apply op_exact_correct C hC .fabs [.fin x] x.abs rfl
  simp only [mpfrOp, mpfrOfExact, RF.abs]
  rfl

/-- C `fmod` on finite operands, `y ≠ 0`, `x ≠ 0`: the exact `x − trunc(x/y)·y` (computed on aligned
significands as `cx mod cy`, sign of `x`) rounded once -/
theorem fmod_correct (C : Ctx) (hC : C.det) (x y : RF) (hx : x.c ≠ 0) (hy : y.c ≠ 0) :
    OpAgree (opEvalFl C .fmod [.fv (.fin x), .fv (.fin y)]) (C.roundAtCore (.fin (fmodRF x y)) none false 0) := by
  apply op_exact_correct C hC .fmod [.fin x, .fin y] (fmodRF x y) rfl
  simp only [mpfrOp, mpfrOfExact, mpfrExactFV, hx, hy, if_false]

/-- integer power with a positive exponent on a finite non-zero `Float`: the exact `x^k` rounded once -/
theorem pow_pos_correct (C : Ctx) (hC : C.det) (x : RF) (k : Nat) (hx : x.c ≠ 0) (hk : 1 ≤ k) :
    OpAgree (opEvalFl C .pow [.fv (.fin x), .fv (.fin (RF.ofInt k))]) (C.roundAtCore (.fin (x.pow k)) none false 0) := by
  apply op_exact_correct C hC .pow [.fin x, .fin (RF.ofInt k)] (x.pow k) rfl
  have hk0 : ¬ k = 0 := by omega
  have hpc : (x.pow k).c ≠ 0 := by
    unfold RF.pow; simp only [hk0, if_false]; exact Nat.pos_iff_ne_zero.1 (Nat.pow_pos (Nat.pos_of_ne_zero hx))
  have hint : RF.toInt? ⟨decide ((k : Int) < 0), 0, k⟩ = some (k : Int) := by
    unfold RF.toInt? RF.isInteger RF.isMoreSignificant RF.e RF.p
    simp [hk0]
    omega
  simp only [mpfrOp, mpfrOfExact, hpc, if_false, FV.isZero, RF.ofInt]
  simp [hx, hk0, hint]

/-- division of finite non-zero `Float`s whose quotient is dyadic (`RealEngine.div` answers the `Float` `z`): the
exact quotient rounded once.  For a NON-dyadic quotient the engine goes through `rtoRat`; that it is rounded once is
`quotient_correct` + `rtoRat_shape` (integer level) — the lift of that case to `opEvalFl` is not done here
(`truncRat`'s exponent search), it is covered by the correspondence + Spec oracle of the harness. -/
theorem div_correct_partial (C : Ctx) (hC : C.det) (x y z : RF) (hx : x.c ≠ 0) (hy : y.c ≠ 0)
    (hz : realDiv (.fv (.fin x)) (.fv (.fin y)) = .fv (.fin z)) :
    OpAgree (opEvalFl C .div [.fv (.fin x), .fv (.fin y)]) (C.roundAtCore (.fin z) none false 0) := by
  apply op_exact_correct C hC .div [.fin x, .fin y] z rfl
  simp only [mpfrOp, mpfrOfExact, mpfrDivFin, hx, hy, hz, decide_false, Bool.or_self, Bool.false_eq_true, if_false]

/-! ## 3. The real context returns the exact result itself -/

/-- under `REAL`, whatever the exact engine answers is returned unchanged (only `invalid`/`divzero` may be set) -/
theorem real_context_exact (op : Op) (args : List NV) (r : NV)
    (hop : opEvalFl .real op args = opEngines .real op args)
    (h : exactEngine op args = some (.ok r)) :
    ∃ fl, opEvalFl .real op args = .ok (r, fl) := by
  rw [hop]
  unfold opEngines
  simp only [Ctx.roundParams, Option.isNone_none, Bool.and_self, Bool.not_true, Bool.and_false,
    Bool.false_eq_true, if_false, h]
  unfold opNormalize
  cases r with
  | q num den => exact ⟨_, rfl⟩
  | fv v =>
    simp only [roundNV, resToNV, Ctx.roundAtCore, Except.map]
    exact ⟨_, rfl⟩

/-- … in particular sums, differences, products, quotients and fused multiply-adds of any mix of `Float`s and
non-dyadic `Fraction`s -/
theorem real_add_exact (a b : NV) : ∃ fl, opEvalFl .real .add [a, b] = .ok (realAdd a b, fl) :=
  real_context_exact .add [a, b] _ rfl rfl
theorem real_mul_exact (a b : NV) : ∃ fl, opEvalFl .real .mul [a, b] = .ok (realMul a b, fl) :=
  real_context_exact .mul [a, b] _ rfl rfl
theorem real_div_exact (a b : NV) : ∃ fl, opEvalFl .real .div [a, b] = .ok (realDiv a b, fl) :=
  real_context_exact .div [a, b] _ rfl rfl
theorem real_fma_exact (a b c : NV) : ∃ fl, opEvalFl .real .fma [a, b, c] = .ok (realAdd (realMul a b) c, fl) :=
  real_context_exact .fma [a, b, c] _ rfl rfl

/-! ## 4. Quotient of `_mod`, roots -/

/-- **Why `MPFREngine._mod`'s quotient is exact.**  The quotient is computed round-to-odd at `n = −1`, i.e. to
quarter units with a sticky last digit; its floor (round toward −∞ on sign and magnitude, `rtn`) equals the floor
of the exact quotient — for both signs, and it is an integer exactly when the exact quotient is. -/
theorem floor_of_rto (s : Bool) (c j : Nat) :
    roundQuot .rtn s (rtoNat c j) 2 = roundQuot .rtn s c (j + 2) ∧
    ((rtoNat c j) % 2 ^ 2 = 0 ↔ c % 2 ^ (j + 2) = 0) := by
  have h := Fpy.rto_reround .rtn s c j (j + 2) (by omega)
  have e : j + 2 - j = 2 := by omega
  rw [e] at h; exact h

/-- the same for a non-dyadic quotient `N/D`: MPFR's truncation of `4N/D` with the sticky bit has the floor and
the "is an integer" status of `N/D` -/
theorem floor_of_rto_rat (N D : Nat) (hD : 0 < D) :
    rtoBit (4 * N / D) (4 * N % D != 0) / 4 = N / D ∧
    (rtoBit (4 * N / D) (4 * N % D != 0) % 4 = 0 ↔ N % D = 0) := by
  have hq : 4 * N / D / 4 = N / D := by
    rw [Nat.div_div_eq_div_mul, Nat.mul_comm D 4, Nat.mul_div_mul_left _ _ (by decide : 0 < 4)]
  have hdm := Nat.div_add_mod (4 * N) D
  have hdn := Nat.div_add_mod N D
  have hlt := Nat.mod_lt (4 * N) hD
  have hlt' := Nat.mod_lt N hD
  -- 4N = D·(4·(N/D)) + 4·(N % D): quotient/remainder of 4N by D in terms of those of N
  have key : 4 * N / D = 4 * (N / D) + 4 * (N % D) / D ∧ 4 * N % D = 4 * (N % D) % D := by
    have e : 4 * N = D * (4 * (N / D)) + 4 * (N % D) := by
      have : D * (4 * (N / D)) = 4 * (D * (N / D)) := Nat.mul_left_comm D 4 _
      omega
    constructor
    · rw [e, Nat.mul_add_div hD]
    · rw [e, Nat.mul_add_mod]
  have h7 : 4 * (N % D) / D < 4 := (Nat.div_lt_iff_lt_mul hD).2 (by omega)
  generalize hA : 4 * N / D = A at *
  generalize hB : 4 * N % D = B at *
  generalize hT : 4 * (N % D) / D = T at *
  unfold rtoBit
  by_cases hc : (A % 2 == 0 && B != 0) = true
  · rw [if_pos hc]
    have h1 : A % 2 = 0 := by simp only [Bool.and_eq_true, beq_iff_eq] at hc; exact hc.1
    have h2 : B ≠ 0 := by simp only [Bool.and_eq_true, bne_iff_ne] at hc; exact hc.2
    refine ⟨by omega, ?_⟩
    constructor
    · intro h; omega
    · intro h
      rw [h] at key; simp at key; omega
  · rw [if_neg hc]
    refine ⟨hq, ?_⟩
    have hc' : ¬ (A % 2 = 0 ∧ B ≠ 0) := by simpa using hc
    constructor
    · intro h4
      have hB0 : B = 0 := by
        by_cases hb : B = 0
        · exact hb
        · exact absurd ⟨by omega, hb⟩ hc'
      have h5 : T = 0 := by omega
      have h6 : 4 * (N % D) < D := by
        rcases Nat.lt_or_ge (4 * (N % D)) D with h | h
        · exact h
        · have := Nat.div_pos h hD; omega
      rw [Nat.mod_eq_of_lt h6] at key; omega
    · intro h
      rw [h] at key hT; simp at key hT; omega

/-- integer square / cube root: `r² ≤ n < (r+1)²`, `r³ ≤ n < (r+1)³` -/
theorem isqrt_spec (n : Nat) : isqrt n ^ 2 ≤ n ∧ n < (isqrt n + 1) ^ 2 := isqrt_spec' n
theorem icbrt_spec (n : Nat) : icbrt n ^ 3 ≤ n ∧ n < (icbrt n + 1) ^ 3 := icbrt_spec' n

/-- **A non-negative real to half a unit, with a sticky bit.**  A real `ρ ≥ 0` with floor `r` and "is not an
integer" flag `b` is coded by `2r + b`.  On a grid of `2^K` units with `K ≥ 1`, grid points and midpoints are
integers, so `ρ` compares with each of them exactly as `2r + b` compares with its double: `Spec.roundQuot` of the
code on the grid `2^(K+1)` is the correct rounding of `ρ` in every mode. -/
def realCode (r : Nat) (b : Bool) : Nat := 2 * r + (if b then 1 else 0)

/-- **Inexact intermediates are rounded once.**  An engine that knows the floor `r` of the exact (possibly
irrational or non-dyadic) result and whether anything lies beyond it (`b`), drops `d` further digits and ORs
"digits lost or `b`" into the last one, produces an intermediate whose final rounding on a grid `2^K` with two
guard digits (`d + 2 ≤ K`) is the rounding of the real result itself (`realCode`), in every mode; and it is exact
exactly when the real result is a grid point. -/
theorem sticky_correct (rm : RM) (s : Bool) (r d K : Nat) (b : Bool) (h : d + 2 ≤ K) :
    roundQuot rm s (rtoBit (r / 2 ^ d) (r % 2 ^ d != 0 || b)) (K - d) = roundQuot rm s (realCode r b) (K + 1) ∧
    (rtoBit (r / 2 ^ d) (r % 2 ^ d != 0 || b) % 2 ^ (K - d) = 0 ↔ realCode r b % 2 ^ (K + 1) = 0) := by
  -- the intermediate is the plain sticky truncation of the code by d+1 digits
  have hcode : rtoBit (r / 2 ^ d) (r % 2 ^ d != 0 || b) = rtoNat (realCode r b) (d + 1) := by
    unfold rtoNat realCode
    have hp : 2 ^ (d + 1) = 2 * 2 ^ d := by rw [Nat.pow_succ]; omega
    have hb : (if b then 1 else 0) < 2 := by split <;> omega
    have hbz : ((if b then 1 else 0) = 0) ↔ b = false := by cases b <;> simp
    generalize (if b then 1 else 0) = t at *
    have hdiv : (2 * r + t) / 2 ^ (d + 1) = r / 2 ^ d := by
      rw [hp, ← Nat.div_div_eq_div_mul]
      have : (2 * r + t) / 2 = r := by omega
      rw [this]
    have hmod : (2 * r + t) % 2 ^ (d + 1) = t + 2 * (r % 2 ^ d) := by
      rw [hp, Nat.mod_mul]
      have h1 : (2 * r + t) % 2 = t := by omega
      have h2 : (2 * r + t) / 2 = r := by omega
      rw [h1, h2]
    rw [hdiv, hmod]
    congr 1
    cases hbb : b with
    | false =>
      have ht : t = 0 := hbz.2 hbb
      subst ht
      by_cases h1 : r % 2 ^ d = 0
      · simp [h1]
      · have e1 : (r % 2 ^ d != 0) = true := by simp [h1]
        have e2 : (0 + 2 * (r % 2 ^ d) != 0) = true := by simp only [bne_iff_ne, ne_eq]; omega
        rw [e1, e2]; rfl
    | true =>
      have ht : t = 1 := by
        have := mt hbz.1 (by simp [hbb]); omega
      subst ht
      have e2 : (1 + 2 * (r % 2 ^ d) != 0) = true := by simp only [bne_iff_ne, ne_eq]; omega
      rw [e2, Bool.or_true]
  have := Fpy.rto_reround rm s (realCode r b) (d + 1) (K + 1) (by omega)
  have e : K + 1 - (d + 1) = K - d := by omega
  rw [e, ← hcode] at this
  exact this

/-- code of the real `k`-th root of `n`: floor root `r = iroot k n`, not an integer iff `r^k ≠ n` -/
def rootCode (k n : Nat) : Nat := realCode (iroot k n) (iroot k n ^ k != n)

/-- **Roots are rounded once** (`sqrt_correct`, `cbrt_correct`, and `hypot_correct` with `n` the exact sum of
squares, in polynomial form — the real root enters only through `r^k ≤ n < (r+1)^k`, `iroot_spec`).  The engine
truncates the integer root `r = iroot k n` by `d` digits and ORs "digits lost or root inexact" into the last one
(`rtoRoot`); with two guard digits the final rounding is the rounding of the real root. -/
theorem root_correct (rm : RM) (s : Bool) (k n d K : Nat) (h : d + 2 ≤ K) :
    roundQuot rm s (rtoBit (iroot k n / 2 ^ d) (iroot k n % 2 ^ d != 0 || iroot k n ^ k != n)) (K - d)
      = roundQuot rm s (rootCode k n) (K + 1) ∧
    (rtoBit (iroot k n / 2 ^ d) (iroot k n % 2 ^ d != 0 || iroot k n ^ k != n) % 2 ^ (K - d) = 0
      ↔ rootCode k n % 2 ^ (K + 1) = 0) :=
  sticky_correct rm s (iroot k n) d K _ h

/-- **Non-dyadic quotients are rounded once** (division, negative integer powers, `Fraction` operands):
`truncRat` divides the scaled numerator `N` by `D` and `rtoRat` ORs "remainder ≠ 0" into the last digit; with two
guard digits below the final grid `2^K` the final rounding is that of the real quotient `N/D`. -/
theorem quotient_correct (rm : RM) (s : Bool) (N D K : Nat) (h : 2 ≤ K) :
    roundQuot rm s (rtoBit (N / D) (N % D != 0)) K = roundQuot rm s (realCode (N / D) (N % D != 0)) (K + 1) ∧
    (rtoBit (N / D) (N % D != 0) % 2 ^ K = 0 ↔ realCode (N / D) (N % D != 0) % 2 ^ (K + 1) = 0) := by
  have := sticky_correct rm s (N / D) 0 K (N % D != 0) (by omega)
  simp only [Nat.pow_zero, Nat.div_one, Nat.mod_one, Nat.sub_zero, bne_self_eq_false, Bool.false_or] at this
  exact this

/-- `rtoRat` (MPFR's conversion/quotient of a rational, then `_round_odd`) has exactly that shape: `truncRat`
divides a scaled numerator by a scaled denominator (one of them multiplied by a power of two) -/
theorem rtoRat_shape (neg : Bool) (num den prec : Nat) :
    (rtoRat neg num den prec).c = rtoBit (truncRat num den prec).1 (truncRat num den prec).2.2 ∧
    (rtoRat neg num den prec).s = neg ∧
    ∃ N D : Nat, (truncRat num den prec).1 = N / D ∧ (truncRat num den prec).2.2 = (N % D != 0) ∧
      ((N = num ∧ ∃ e : Nat, D = den * 2 ^ e) ∨ (D = den ∧ ∃ e : Nat, N = num * 2 ^ e)) := by
  refine ⟨rfl, rfl, ?_⟩
  unfold truncRat
  simp only
  repeat' split
  all_goals first
    | exact ⟨_, _, rfl, rfl, Or.inl ⟨rfl, _, rfl⟩⟩
    | exact ⟨_, _, rfl, rfl, Or.inr ⟨rfl, _, rfl⟩⟩

/-- the engine's root intermediate IS of that shape: `rtoRoot` scales the significand by an even (multiple of
`k`) power of two to `c'`, takes `iroot k c'`, drops `d` digits and folds the sticky bit -/
theorem rtoRoot_shape (k : Nat) (x : RF) (prec : Nat) :
    ∃ sh d : Nat, (rtoRoot k x prec).c =
        rtoBit (iroot k (x.c * 2 ^ sh) / 2 ^ d) (iroot k (x.c * 2 ^ sh) % 2 ^ d != 0 || iroot k (x.c * 2 ^ sh) ^ k != x.c * 2 ^ sh) ∧
      (rtoRoot k x prec).exp = (x.exp - (sh : Int)) / (k : Int) + (d : Int) ∧ (rtoRoot k x prec).s = x.s ∧
      ((x.exp - (sh : Int)) % (k : Int) = 0 ∨ k = 0) := by
  refine ⟨k * (if x.p + (x.exp % (k : Int)).toNat ≥ k * prec + k then 0
      else (k * prec + k - (x.p + (x.exp % (k : Int)).toNat) + (k - 1)) / k) + (x.exp % (k : Int)).toNat, _, rfl, rfl, rfl, ?_⟩
  by_cases hk : k = 0
  · exact Or.inr hk
  · left
    have hk' : (k : Int) ≠ 0 := by omega
    have hnn : 0 ≤ x.exp % (k : Int) := Int.emod_nonneg _ hk'
    generalize (if x.p + (x.exp % (k : Int)).toNat ≥ k * prec + k then 0
      else (k * prec + k - (x.p + (x.exp % (k : Int)).toNat) + (k - 1)) / k) = j
    have e1 : (((k * j + (x.exp % (k : Int)).toNat : Nat)) : Int) = (k : Int) * (j : Int) + x.exp % (k : Int) := by
      rw [Int.natCast_add, Int.natCast_mul, Int.toNat_of_nonneg hnn]
    rw [e1]
    have e2 : x.exp - ((k : Int) * (j : Int) + x.exp % (k : Int)) = (k : Int) * (x.exp / (k : Int) - j) := by
      have := Int.mul_ediv_add_emod x.exp (k : Int)
      rw [Int.mul_sub]; omega
    rw [e2]; exact Int.mul_emod_right _ _

/-! ## 5. Special operands -/

/-- result class demanded by a table entry (`none` = the table does not decide) -/
def meets (got : Option (Except Err FV)) (want : Option XV) : Prop :=
  match want with
  | none => True
  | some r => ∃ v, got = some (.ok v) ∧ XV.of v = r

/-- **IEEE special-value tables.**  For NaN, ±∞ and ±0 operands the MPFR arm of the model returns the class and
sign the tables of `Spec/Specials.lean` prescribe (NaN propagates, invalid cases give NaN, signs of zeros and
infinities by the sign rules); the sum of opposite zeros is not decided by the table (masked sign). -/
theorem specials_table (p : Option Nat) (n : Option Int) (a b : FV) :
    meets (mpfrOp .add [a, b] p n) (addS (XV.of a) (XV.of b)) ∧
    meets (mpfrOp .sub [a, b] p n) (subS (XV.of a) (XV.of b)) ∧
    meets (mpfrOp .mul [a, b] p n) (mulS (XV.of a) (XV.of b)) ∧
    meets (mpfrOp .div [a, b] p n) (divS (XV.of a) (XV.of b)) ∧
    meets (mpfrOp .sqrt [a] p n) (sqrtS (XV.of a)) ∧
    meets (mpfrOp .cbrt [a] p n) (cbrtS (XV.of a)) ∧
    meets (mpfrOp .hypot [a, b] p n) (hypotS (XV.of a) (XV.of b)) ∧
    meets (mpfrOp .fmod [a, b] p n) (remS (XV.of a) (XV.of b)) ∧
    meets (mpfrOp .remainder [a, b] p n) (remS (XV.of a) (XV.of b)) := by
  refine ⟨?_, ?_, ?_, ?_, ?_, ?_, ?_, ?_, ?_⟩
  · -- add
    cases a with
    | nan s =>
      cases b with
      | nan t => simp [meets, addS, XV.of, mpfrOp, FV.add]
      | inf t => simp [meets, addS, XV.of, mpfrOp, FV.add]
      | fin y => by_cases hy : y.c = 0 <;> simp [meets, addS, XV.of, mpfrOp, FV.add, hy]
    | inf s =>
      cases b with
      | nan t => simp [meets, addS, XV.of, mpfrOp, FV.add]
      | inf t => by_cases h : s = t <;> simp [meets, addS, XV.of, mpfrOp, FV.add, h]
      | fin y => by_cases hy : y.c = 0 <;> simp [meets, addS, XV.of, mpfrOp, FV.add, hy]
    | fin x =>
      cases b with
      | nan t => by_cases hx : x.c = 0 <;> simp [meets, addS, XV.of, mpfrOp, FV.add, hx]
      | inf t => by_cases hx : x.c = 0 <;> simp [meets, addS, XV.of, mpfrOp, FV.add, hx]
      | fin y =>
        by_cases hx : x.c = 0 <;> by_cases hy : y.c = 0 <;> simp [meets, addS, XV.of, mpfrOp, hx, hy]
        by_cases h : x.s = y.s <;> simp [h]
  · -- sub
    cases a with
    | nan s =>
      cases b with
      | nan t => simp [meets, subS, addS, negX, XV.of, mpfrOp, FV.add, FV.neg]
      | inf t => simp [meets, subS, addS, negX, XV.of, mpfrOp, FV.add, FV.neg]
      | fin y => by_cases hy : y.c = 0 <;> simp [meets, subS, addS, negX, XV.of, mpfrOp, FV.add, FV.neg, hy]
    | inf s =>
      cases b with
      | nan t => simp [meets, subS, addS, negX, XV.of, mpfrOp, FV.add, FV.neg]
      | inf t => cases s <;> cases t <;> simp [meets, subS, addS, negX, XV.of, mpfrOp, FV.add, FV.neg]
      | fin y => by_cases hy : y.c = 0 <;> simp [meets, subS, addS, negX, XV.of, mpfrOp, FV.add, FV.neg, hy]
    | fin x =>
      cases b with
      | nan t => by_cases hx : x.c = 0 <;> simp [meets, subS, addS, negX, XV.of, mpfrOp, FV.add, FV.neg, hx]
      | inf t => by_cases hx : x.c = 0 <;> simp [meets, subS, addS, negX, XV.of, mpfrOp, FV.add, FV.neg, hx]
      | fin y =>
        by_cases hx : x.c = 0 <;> by_cases hy : y.c = 0 <;> simp [meets, subS, addS, negX, XV.of, mpfrOp, RF.neg, hx, hy]
        by_cases h : x.s = !y.s <;> simp [h]
  · -- mul
    cases a with
    | nan s =>
      cases b with
      | nan t => simp [meets, mulS, signX, XV.of, mpfrOp, FV.mul, FV.isZero, FV.sign]
      | inf t => simp [meets, mulS, signX, XV.of, mpfrOp, FV.mul, FV.isZero, FV.sign]
      | fin y => by_cases hy : y.c = 0 <;> simp [meets, mulS, signX, XV.of, mpfrOp, FV.mul, FV.isZero, FV.sign, hy]
    | inf s =>
      cases b with
      | nan t => simp [meets, mulS, signX, XV.of, mpfrOp, FV.mul, FV.isZero, FV.sign]
      | inf t => by_cases h : s = t <;> simp [meets, mulS, signX, XV.of, mpfrOp, FV.mul, FV.isZero, FV.sign, h]
      | fin y => by_cases hy : y.c = 0 <;> simp [meets, mulS, signX, XV.of, mpfrOp, FV.mul, FV.isZero, FV.sign, hy]
    | fin x =>
      cases b with
      | nan t => by_cases hx : x.c = 0 <;> simp [meets, mulS, signX, XV.of, mpfrOp, FV.mul, FV.isZero, FV.sign, hx]
      | inf t => by_cases hx : x.c = 0 <;> simp [meets, mulS, signX, XV.of, mpfrOp, FV.mul, FV.isZero, FV.sign, hx]
      | fin y =>
        by_cases hx : x.c = 0 <;> by_cases hy : y.c = 0 <;> simp [meets, mulS, signX, XV.of, mpfrOp, RF.mul, hx, hy]
  · -- div
    cases a with
    | nan s =>
      cases b with
      | nan t => simp [meets, divS, signX, XV.of, mpfrOp, realDiv, nvIsNan, nvIsInf, nvIsZero, nvSign, FV.isNan, FV.isInf, FV.isZero, FV.sign]
      | inf t => simp [meets, divS, signX, XV.of, mpfrOp, realDiv, nvIsNan, nvIsInf, nvIsZero, nvSign, FV.isNan, FV.isInf, FV.isZero, FV.sign]
      | fin y => by_cases hy : y.c = 0 <;> simp [meets, divS, signX, XV.of, mpfrOp, realDiv, nvIsNan, nvIsInf, nvIsZero, nvSign, FV.isNan, FV.isInf, FV.isZero, FV.sign, hy]
    | inf s =>
      cases b with
      | nan t => simp [meets, divS, signX, XV.of, mpfrOp, realDiv, nvIsNan, nvIsInf, nvIsZero, nvSign, FV.isNan, FV.isInf, FV.isZero, FV.sign]
      | inf t => by_cases h : s = t <;> simp [meets, divS, signX, XV.of, mpfrOp, realDiv, nvIsNan, nvIsInf, nvIsZero, nvSign, FV.isNan, FV.isInf, FV.isZero, FV.sign, h]
      | fin y => by_cases hy : y.c = 0 <;> simp [meets, divS, signX, XV.of, mpfrOp, realDiv, nvIsNan, nvIsInf, nvIsZero, nvSign, FV.isNan, FV.isInf, FV.isZero, FV.sign, hy]
    | fin x =>
      cases b with
      | nan t => by_cases hx : x.c = 0 <;> simp [meets, divS, signX, XV.of, mpfrOp, realDiv, nvIsNan, nvIsInf, nvIsZero, nvSign, FV.isNan, FV.isInf, FV.isZero, FV.sign, hx]
      | inf t => by_cases hx : x.c = 0 <;> simp [meets, divS, signX, XV.of, mpfrOp, realDiv, nvIsNan, nvIsInf, nvIsZero, nvSign, FV.isNan, FV.isInf, FV.isZero, FV.sign, hx]
      | fin y =>
        by_cases hx : x.c = 0 <;> by_cases hy : y.c = 0 <;>
          simp [meets, divS, signX, XV.of, mpfrOp, realDiv, nvIsNan, nvIsInf, nvIsZero, nvSign, FV.isNan, FV.isInf, FV.isZero, FV.sign, hx, hy]
  · -- sqrt
    cases a with
    | nan s => simp [meets, sqrtS, XV.of, mpfrOp]
    | inf s => cases s <;> simp [meets, sqrtS, XV.of, mpfrOp]
    | fin x =>
      by_cases hx : x.c = 0 <;> simp [meets, sqrtS, XV.of, mpfrOp, hx]
      cases hs : x.s <;> simp [hs]
  · -- cbrt
    cases a with
    | nan s => simp [meets, cbrtS, XV.of, mpfrOp]
    | inf s => simp [meets, cbrtS, XV.of, mpfrOp]
    | fin x => by_cases hx : x.c = 0 <;> simp [meets, cbrtS, XV.of, mpfrOp, hx]
  · -- hypot
    cases a with
    | nan s =>
      cases b with
      | nan t => simp [meets, hypotS, XV.of, mpfrOp, FV.isInf]
      | inf t => simp [meets, hypotS, XV.of, mpfrOp, FV.isInf]
      | fin y => by_cases hy : y.c = 0 <;> simp [meets, hypotS, XV.of, mpfrOp, FV.isInf, hy]
    | inf s =>
      cases b with
      | nan t => simp [meets, hypotS, XV.of, mpfrOp, FV.isInf]
      | inf t => by_cases h : s = t <;> simp [meets, hypotS, XV.of, mpfrOp, FV.isInf, h]
      | fin y => by_cases hy : y.c = 0 <;> simp [meets, hypotS, XV.of, mpfrOp, FV.isInf, hy]
    | fin x =>
      cases b with
      | nan t => by_cases hx : x.c = 0 <;> simp [meets, hypotS, XV.of, mpfrOp, FV.isInf, hx]
      | inf t => by_cases hx : x.c = 0 <;> simp [meets, hypotS, XV.of, mpfrOp, FV.isInf, hx]
      | fin y =>
        by_cases hx : x.c = 0 <;> by_cases hy : y.c = 0 <;> simp [meets, hypotS, XV.of, mpfrOp, FV.isInf, hx, hy]
  · -- fmod
    cases a with
    | nan s =>
      cases b with
      | nan t => simp [meets, remS, XV.of, mpfrOp, mpfrExactFV]
      | inf t => simp [meets, remS, XV.of, mpfrOp, mpfrExactFV]
      | fin y => by_cases hy : y.c = 0 <;> simp [meets, remS, XV.of, mpfrOp, mpfrExactFV, hy]
    | inf s =>
      cases b with
      | nan t => simp [meets, remS, XV.of, mpfrOp, mpfrExactFV]
      | inf t => by_cases h : s = t <;> simp [meets, remS, XV.of, mpfrOp, mpfrExactFV, h]
      | fin y => by_cases hy : y.c = 0 <;> simp [meets, remS, XV.of, mpfrOp, mpfrExactFV, hy]
    | fin x =>
      cases b with
      | nan t => by_cases hx : x.c = 0 <;> simp [meets, remS, XV.of, mpfrOp, mpfrExactFV, hx]
      | inf t => by_cases hx : x.c = 0 <;> simp [meets, remS, XV.of, mpfrOp, mpfrExactFV, hx]
      | fin y =>
        by_cases hx : x.c = 0 <;> by_cases hy : y.c = 0 <;> simp [meets, remS, XV.of, mpfrOp, mpfrExactFV, hx, hy]
  · -- remainder
    cases a with
    | nan s =>
      cases b with
      | nan t => simp [meets, remS, XV.of, mpfrOp, mpfrExactFV]
      | inf t => simp [meets, remS, XV.of, mpfrOp, mpfrExactFV]
      | fin y => by_cases hy : y.c = 0 <;> simp [meets, remS, XV.of, mpfrOp, mpfrExactFV, hy]
    | inf s =>
      cases b with
      | nan t => simp [meets, remS, XV.of, mpfrOp, mpfrExactFV]
      | inf t => by_cases h : s = t <;> simp [meets, remS, XV.of, mpfrOp, mpfrExactFV, h]
      | fin y => by_cases hy : y.c = 0 <;> simp [meets, remS, XV.of, mpfrOp, mpfrExactFV, hy]
    | fin x =>
      cases b with
      | nan t => by_cases hx : x.c = 0 <;> simp [meets, remS, XV.of, mpfrOp, mpfrExactFV, hx]
      | inf t => by_cases hx : x.c = 0 <;> simp [meets, remS, XV.of, mpfrOp, mpfrExactFV, hx]
      | fin y =>
        by_cases hx : x.c = 0 <;> by_cases hy : y.c = 0 <;> simp [meets, remS, XV.of, mpfrOp, mpfrExactFV, hx, hy]

/-! ## 6. Signs of zero results where the code was repaired (formerly counterexamples) -/

/-- **Exact engine, zero product.**  IEEE: the sign of a product is the XOR of the signs, also when it is zero
(`mulS`).  `RealEngine.mul` now answers a zero product of finite operands itself (as `div` always did) instead of
multiplying as `Fraction`s, which cannot carry `−0`: for a `Float` zero and any finite `Float` or non-dyadic
`Fraction`, the result is the zero with the XOR sign.  (Repaired defect C02-F2.) -/
theorem real_mul_zero_sign (x y : NV) (hx : nvIsNar x = false) (hy : nvIsNar y = false)
    (hz : nvIsZero x = true ∨ nvIsZero y = true) :
    realMul x y = .fv (.fin ⟨nvSign x != nvSign y, 0, 0⟩) := by
  have nan_inf : ∀ v : NV, nvIsNar v = false → nvIsNan v = false ∧ nvIsInf v = false := by
    intro v hv
    cases v with
    | q n d => exact ⟨rfl, rfl⟩
    | fv u => cases u <;> simp [nvIsNar, nvIsNan, nvIsInf, FV.isNar, FV.isNan, FV.isInf] at hv ⊢
  obtain ⟨h1, h2⟩ := nan_inf x hx
  obtain ⟨h3, h4⟩ := nan_inf y hy
  unfold realMul
  have hz' : (nvIsZero x || nvIsZero y) = true := by
    rcases hz with h | h <;> simp [h]
  simp only [h1, h2, h3, h4, hz', Bool.or_self, Bool.false_eq_true, if_false, if_true]

/-- … the instance that used to fail: `ops.mul(-0.0, Fraction(1, 3), ctx=MPFloatContext(3, RNE))` is `−0`, what
`mulS` prescribes; likewise inside `fma` -/
theorem mul_zero_fraction_sign :
    (opEval (.mp 3 .rne (some 0) {}) .mul [.fv (.fin ⟨true, 0, 0⟩), .q 1 3]).toOption = some (.fv (.fin ⟨true, 0, 0⟩)) ∧
    mulS (.zero true) (.fin false) = some (.zero true) ∧
    (opEval (.mp 3 .rne (some 0) {}) .fma [.fv (.fin ⟨true, 0, 0⟩), .q 1 3, .fv (.fin ⟨true, 0, 0⟩)]).toOption
      = some (.fv (.fin ⟨true, 0, 0⟩)) := by
  refine ⟨by decide, rfl, by decide⟩

/-- **`mod`, zero remainder.**  `ops.mod` documents Python's `%`, where a zero remainder takes the sign of the
divisor (`4 % -2 = -0.0`), as the zero-dividend arms of `_mod` always did; the finite arm now does the same: whenever
`MPFREngine._mod` on finite non-zero operands returns a zero, its sign is the sign of `y`.  (Repaired defect C02-F1.) -/
theorem mod_zero_sign (x y : RF) (v : FV) (h : modFin x y = .ok v) (hz : v.isZero = true) : v.sign = y.s := by
  unfold modFin at h
  split at h
  · exact absurd h (by simp)
  · split at h
    · exact absurd h (by simp)
    · split at h
      · exact absurd h (by simp)
      · simp only [Except.ok.injEq] at h
        split at h
        · rename_i hr
          subst h
          revert hr
          generalize FV.add (.fin x) (FV.neg (FV.mul (.fin y) (.fin (RF.ofInt _)))) = r
          intro hr
          cases r with
          | fin w => rfl
          | inf t => simp [FV.isZero] at hr
          | nan t => simp [FV.isZero] at hr
        · rename_i hr
          subst h
          exact absurd hz hr
  · exact absurd h (by simp)

/-- … the instances that used to fail, and the arms that were always right -/
theorem mod_zero_sign_examples :
    (opEval (.mp 3 .rne (some 0) {}) .mod [.fv (.fin ⟨false, 0, 4⟩), .fv (.fin ⟨true, 0, 2⟩)]).toOption = some (.fv (.fin ⟨true, 0, 0⟩)) ∧
    (opEval (.mp 3 .rne (some 0) {}) .mod [.fv (.fin ⟨true, 0, 4⟩), .fv (.fin ⟨false, 0, 2⟩)]).toOption = some (.fv (.fin ⟨false, 0, 0⟩)) ∧
    (opEval (.mp 3 .rne (some 0) {}) .mod [.fv (.fin ⟨false, 0, 0⟩), .fv (.fin ⟨true, 0, 2⟩)]).toOption = some (.fv (.fin ⟨true, 0, 0⟩)) ∧
    (opEval (.mp 3 .rne (some 0) {}) .mod [.fv (.fin ⟨false, 0, 5⟩), .fv (.fin ⟨true, 0, 2⟩)]).toOption = some (.fv (.fin ⟨true, 0, 1⟩)) := by
  refine ⟨by decide, by decide, by decide, by decide⟩

/-! ## 7. Non-vacuity: the hypotheses are satisfiable and the statements bite -/

-- the sticky bit matters: 65 units on a grid of 32, three digits dropped; without it RTP would stay at 2
example : roundQuot .rtp false 65 5 = 3 ∧ roundQuot .rtp false (rtoNat 65 3) (5 - 3) = 3 ∧
    roundQuot .rtp false (65 / 2 ^ 3) (5 - 3) = 2 ∧ 3 + 2 ≤ 5 := by decide
-- a deterministic context
example : (Ctx.mp 2 .rne (some 0) {}).det := ⟨rfl, by decide⟩
example : (Ctx.mpfix (-3) .rna (some 0) true {}).det := rfl
-- a double-rounding trap: 1.25 + 1/64 under 2 digits RNE is 1.5 (rounding first to 3 digits would give the tie 1.25 ↦ 1.0)
example : (opEval (.mp 2 .rne (some 0) {}) .add [.fv (.fin ⟨false, -2, 5⟩), .fv (.fin ⟨false, -6, 1⟩)]).toOption
    = some (.fv (.fin ⟨false, -1, 3⟩)) := by decide
example : (⟨false, -2, 5⟩ : RF).add ⟨false, -6, 1⟩ = ⟨false, -6, 81⟩ := by decide
-- fma is one rounding: 3·3 + 1/4 under 3 digits RTP is 10, not round(round(9) + 1/4)
example : (opEval (.mp 3 .rtp (some 0) {}) .fma [.fv (.fin ⟨false, 0, 3⟩), .fv (.fin ⟨false, 0, 3⟩), .fv (.fin ⟨false, -2, 1⟩)]).toOption
    = some (.fv (.fin ⟨false, 1, 5⟩)) := by decide
-- roots: √2 to 3 digits under RNE is 1.5 (= 3·2⁻¹); ∛(−27) = −3 exactly (as 6·2⁻¹); hypot(3, 4) = 5
example : (opEval (.mp 3 .rne (some 0) {}) .sqrt [.fv (.fin ⟨false, 1, 1⟩)]).toOption = some (.fv (.fin ⟨false, -2, 6⟩)) := by decide
example : (opEval (.mp 3 .rne (some 0) {}) .cbrt [.fv (.fin ⟨true, 0, 27⟩)]).toOption = some (.fv (.fin ⟨true, -1, 6⟩)) := by decide
example : (opEval (.mp 3 .rne (some 0) {}) .hypot [.fv (.fin ⟨false, 0, 3⟩), .fv (.fin ⟨true, 0, 4⟩)]).toOption = some (.fv (.fin ⟨false, 0, 5⟩)) := by decide
example : isqrt 17 = 4 ∧ icbrt 26 = 2 ∧ rootCode 2 17 = 9 ∧ rootCode 2 16 = 8 ∧ realCode (7 / 3) (7 % 3 != 0) = 5 := by decide
-- special operands: ∞ − ∞ is NaN with `invalid`, 1/0 is +∞ with `divzero`
example : (opEvalFl (.mp 3 .rne (some 0) {}) .sub [.fv (.inf false), .fv (.inf false)]).toOption = some (.fv (.nan false), { invalid := true }) := by decide
example : (opEvalFl (.mp 3 .rne (some 0) {}) .div [.fv (.fin ⟨false, 0, 1⟩), .fv (.fin ⟨false, 0, 0⟩)]).toOption = some (.fv (.inf false), { divzero := true }) := by decide
-- the real context returns the exact non-dyadic quotient itself
example : (opEval .real .div [.fv (.fin ⟨false, 0, 1⟩), .fv (.fin ⟨false, 0, 3⟩)]).toOption = some (.q 1 3) := by decide

end Fpy.Props.C02
