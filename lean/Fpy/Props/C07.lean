/-
C07 — `simplify` (constant folding, copy propagation, dead-code elimination) never changes what a
program returns.

Approach: TRANSLATION VALIDATION at the level of the model.  `Fpy.Xform.simB R p' p`
(Model/Lang/Sim.lean) is an executable checker: `p'` is `p` up to the variable correspondence `R`.
`sim_sound` below is its soundness: accepted programs started in `R`-related environments have
the same outcome at every fuel.  Each rewrite of the real passes is then an instance:

* dead-code shapes that hold in every state (`dce_shapes_sound`, FULL): `if True/False`, `while False`,
  `assert True`, `pass`, code after `return` — exactly the cases of `dead_code._Eliminator`;
* `dead_assign_elim` (FULL for heap-neutral right-hand sides): `x = e; rest ≡ rest` when `x` is not
  read afterwards and `e` is pure and total in the model's sense; `dead_assign_elim_returns` is the
  direction the property states and needs no totality;
* `self_assign_elim` (FULL): `x = x` with `x` bound;
* `copy_prop_sound` (FULL): after `x = y`, replacing reads of `x` by `y` (all or some of them) in a
  block that rebinds neither — the repaired single-definition condition of `copy_propagate.py`;
  `copy_prop_rejects_redefinition` shows the checker refusing the F13 shape;
* `const_fold_closed_sound` / `const_fold_static_sound` (FULL for scalar expressions): the STATIC decision
  of constant folding.  An expression built from literals (and names bound to known flat values) by
  rounded operators, predicates, comparisons, Boolean connectives, conditionals and `round_at`
  (`scalarE`) is evaluated once, on the empty heap, under the context `C` active at that point; in every
  state agreeing on those names it evaluates under `C` to that value and leaves the heap alone, so
  replacing it by the literal (`litOf`) preserves the outcome of the enclosing assignment / `return` /
  `assert` / expression statement / `if` / `for` (`const_fold_stmt_sound`); under `with D:` the context to
  use is `D` (`const_fold_under_with`).  `const_fold_wrong_context_unsound`: folding with the value
  computed under a DIFFERENT context than the active one changes the result (concrete program).
  PARTIAL (`const_fold_subexpr_partial`): a foldable sub-expression nested inside a non-constant
  expression (`x * (2 + 3)`), `while` conditions, list-valued constants — by differential runs only.
-/
import Fpy.Proof.LangFold
namespace Fpy.Props.C07
open Fpy Fpy.Lang Fpy.Xform

/-- soundness of the validator: same outcome at EVERY fuel (`RelM (OutRel R)`: same error, or same
returned value and heap, or `R`-related final environments and the same heap) -/
theorem sim_sound (Φ : Funs) (R : VRel) (n : Nat) {σ1 σ2 : Env} {p' p : List Stmt} (hinv : Inv R σ1 σ2)
    (h : simB R p' p = true) (μ : Heap) (C : Ctx) :
    RelM (OutRel R) (evalB Φ n σ1 μ C p') (evalB Φ n σ2 μ C p) :=
  (simAt Φ R n).evalB σ1 σ2 p' p hinv h μ C

/-- … hence the same `Returns` -/
theorem sim_returns (Φ : Funs) (R : VRel) {σ1 σ2 : Env} {p' p : List Stmt} (hinv : Inv R σ1 σ2)
    (h : simB R p' p = true) (μ : Heap) (C : Ctx) (v : Val) (μ' : Heap) :
    Returns Φ σ1 μ C p' v μ' ↔ Returns Φ σ2 μ C p v μ' := Fpy.Xform.sim_returns hinv h μ C v μ'

/-- evaluation depends only on the variables an expression reads -/
theorem evalE_congr_env (Φ : Funs) (n : Nat) {σ1 σ2 : Env} (μ : Heap) (C : Ctx) (e : Expr)
    (h : ∀ z ∈ readsE e, σ1.get? z = σ2.get? z) : evalE Φ n σ1 μ C e = evalE Φ n σ2 μ C e :=
  Fpy.Xform.evalE_congr_env Φ n μ C e h

/-- substitution lemma: `e[y/x]` evaluates like `e` where `x` and `y` hold the same value -/
theorem evalE_subst (Φ : Funs) (n : Nat) {σ : Env} (μ : Heap) (C : Ctx) {x y : String} (e : Expr)
    (hxy : σ.get? x = σ.get? y) (hx : x ∉ bvE e) (hy : y ∉ bvE e) :
    evalE Φ n σ μ C (renE (sub1 x y) e) = evalE Φ n σ μ C e := Fpy.Xform.evalE_subst Φ n μ C e hxy hx hy

/-- the state-independent dead-code shapes -/
theorem dce_shapes_sound (Φ : Funs) (A B rest : List Stmt) (e : Expr) :
    BEquiv Φ (.ifte (.bool true) A B :: rest) (A ++ rest) ∧
    BEquiv Φ (.ifte (.bool false) A B :: rest) (B ++ rest) ∧
    BEquiv Φ (.if1 (.bool true) A :: rest) (A ++ rest) ∧
    BEquiv Φ (.if1 (.bool false) A :: rest) rest ∧
    BEquiv Φ (.while (.bool false) A :: rest) rest ∧
    BEquiv Φ (.assert (.bool true) :: rest) rest ∧
    BEquiv Φ (.pass :: rest) rest ∧
    BEquiv Φ (.ret e :: rest) [.ret e] :=
  ⟨if_true_fold Φ A B rest, if_false_fold Φ A B rest, if1_true_fold Φ A rest, if1_false_elim Φ A rest,
    while_false_elim Φ A rest, assert_true_elim Φ rest, pass_elim Φ rest, after_return_elim Φ e rest⟩

/-- the remaining shapes of `dead_code._Eliminator`: empty branches, dead expression statements, empty
or doubled `with` blocks (the first two need no side condition, the others the purity the pass checks) -/
theorem dce_shapes_more (Φ : Funs) (c : Expr) (A B rest : List Stmt) (D D' : Ctx) :
    SEquiv Φ (.ifte c A [.pass]) (.if1 c A) ∧
    SEquiv Φ (.ifte c [.pass] B) (.if1 (.not c) B) ∧
    BEquiv Φ (.with (.ctxLit D) none [.pass] :: rest) rest ∧
    SEquiv Φ (.with (.ctxLit D) none [.with (.ctxLit D') none A]) (.with (.ctxLit D') none A) :=
  ⟨ifte_else_pass Φ c A, ifte_then_pass Φ c B, with_pass_elim Φ D rest, with_with_elim Φ D D' A⟩

theorem effect_elim {Φ : Funs} {σ : Env} {μ : Heap} {C : Ctx} {e : Expr} (hp : PureTotal Φ σ μ C e) (rest : List Stmt) :
    evalBω Φ σ μ C (.effect e :: rest) = evalBω Φ σ μ C rest := Fpy.Xform.effect_elim hp rest

theorem if1_pass_elim {Φ : Funs} {σ : Env} {μ : Heap} {C : Ctx} {c : Expr} {b : Bool}
    (hp : evalEω Φ σ μ C c = .ok (.bool b, μ)) (rest : List Stmt) :
    evalBω Φ σ μ C (.if1 c [.pass] :: rest) = evalBω Φ σ μ C rest := Fpy.Xform.if1_pass_elim hp rest

/-- from blocks to `f(*args)` versus `simplify(f)(*args)`: functions with equivalent bodies return the same -/
theorem entry_equiv {Φ : Funs} {f f' : String} {fd fd' : FuncDef} (hf : Φ.find? f = some fd) (hf' : Φ.find? f' = some fd')
    (hp : fd.params = fd'.params) (hc : fd.ctx = fd'.ctx) (hb : BEquiv Φ fd.body fd'.body)
    (args : List Val) (μ : Heap) (ctx : Option Ctx) (v : Val) (μ' : Heap) :
    (∃ n, callEntry Φ n f args μ ctx = .ok (v, μ')) ↔ (∃ n, callEntry Φ n f' args μ ctx = .ok (v, μ')) :=
  Fpy.Xform.entry_equiv hf hf' hp hc hb args μ ctx v μ'

/-- `BEquiv` is what the property needs and more -/
theorem bequiv_returns {Φ : Funs} {ss ss' : List Stmt} (h : BEquiv Φ ss ss') (σ : Env) (μ : Heap) (C : Ctx) (v : Val) (μ' : Heap) :
    Returns Φ σ μ C ss v μ' ↔ Returns Φ σ μ C ss' v μ' := h.returns

/-- dead assignment: `x` not read afterwards (so not returned), right-hand side pure and total -/
theorem dead_assign_elim {Φ : Funs} {x : String} {e : Expr} {rest : List Stmt} (hx : x ∉ readsB rest)
    {σ : Env} {μ : Heap} {C : Ctx} (hp : PureTotal Φ σ μ C e) (w : Val) (μ' : Heap) :
    Returns Φ σ μ C (.assign (.var x) e :: rest) w μ' ↔ Returns Φ σ μ C rest w μ' :=
  dead_assign_elim_syn hx hp w μ'

/-- … the direction C07 states, without totality -/
theorem dead_assign_elim_returns {Φ : Funs} {x : String} {e : Expr} {rest : List Stmt} (hx : x ∉ readsB rest)
    {σ : Env} {μ : Heap} {C : Ctx} (hp : HeapNeutral Φ σ μ C e) (w : Val) (μ' : Heap) :
    Returns Φ σ μ C (.assign (.var x) e :: rest) w μ' → Returns Φ σ μ C rest w μ' :=
  dead_assign_elim_syn_returns hx hp w μ'

/-- a bound variable or a literal is pure and total -/
theorem simple_is_pureTotal {Φ : Funs} {σ : Env} {μ : Heap} {C : Ctx} {e : Expr} (hs : simpleE e = true)
    (hb : ∀ z ∈ readsE e, (σ.get? z).isSome = true) : PureTotal Φ σ μ C e := pureTotal_of_simple hs hb

theorem self_assign_elim {Φ : Funs} {x : String} {rest : List Stmt} {σ : Env} {μ : Heap} {C : Ctx} {v : Val}
    (hb : σ.get? x = some v) (w : Val) (μ' : Heap) :
    Returns Φ σ μ C (.assign (.var x) (.var x) :: rest) w μ' ↔ Returns Φ σ μ C rest w μ' :=
  self_assign_elim_syn hb w μ'

/-- copy propagation, validator form: any `ss'` the checker accepts against `ss` under
"identity on `xs`, and `y` may stand for `x`" -/
theorem copy_prop_sound {Φ : Funs} {xs : List String} {x y : String} {ss ss' : List Stmt}
    (h : simB (cpRel xs x y) ss' ss = true) (σ : Env) (μ : Heap) (C : Ctx) (w : Val) (μ' : Heap) :
    Returns Φ σ μ C (.assign (.var x) (.var y) :: ss') w μ' ↔ Returns Φ σ μ C (.assign (.var x) (.var y) :: ss) w μ' :=
  Fpy.Xform.copy_prop_sound h σ μ C w μ'

/-- copy propagation, substitution form -/
theorem copy_prop_subst_sound {Φ : Funs} {x y : String} {ss : List Stmt} (hx : x ∉ bvB ss) (hy : y ∉ bvB ss)
    (σ : Env) (μ : Heap) (C : Ctx) (w : Val) (μ' : Heap) :
    Returns Φ σ μ C (.assign (.var x) (.var y) :: substB x y ss) w μ' ↔
      Returns Φ σ μ C (.assign (.var x) (.var y) :: ss) w μ' :=
  Fpy.Xform.copy_prop_subst_sound hx hy σ μ C w μ'

/-- THE STATIC DECISION, closed expressions: the folder evaluates the closed scalar `e` once (fuel `N`,
empty environment and heap) under the ACTIVE context `C`; then in every state `e` evaluates under `C`
to that value, without touching the heap. -/
theorem const_fold_closed_sound {Φ : Funs} {N : Nat} {C : Ctx} {e : Expr} {v : Val} {m : Heap}
    (hc : closedE e = true) (hstatic : evalE Φ N [] [] C e = .ok (v, m)) (σ : Env) (μ : Heap) :
    evalEω Φ σ μ C e = .ok (v, μ) ∧ flatV v = true := const_fold_closed hc hstatic σ μ

/-- … with names bound to literals by a unique dominating definition: `Γ` lists them (flat values); the
state must agree with `Γ` on the names `e` reads (nothing rebinds them between definition and use). -/
theorem const_fold_static_sound {Φ : Funs} {N : Nat} {Γ σ : Env} {C : Ctx} {e : Expr} {v : Val} {m : Heap}
    (hs : scalarE e = true) (hΓ : FlatOn Γ (readsE e)) (hσ : ∀ z ∈ readsE e, σ.get? z = Γ.get? z)
    (hstatic : evalE Φ N Γ [] C e = .ok (v, m)) (μ : Heap) :
    evalEω Φ σ μ C e = .ok (v, μ) ∧ flatV v = true := const_fold_static hs hΓ hσ hstatic μ

/-- replacing the top-level expression of a statement by the literal of its static value -/
theorem const_fold_stmt_sound {Φ : Funs} {N : Nat} {Γ σ : Env} {C : Ctx} {e lit : Expr} {v : Val} {m : Heap}
    (hs : scalarE e = true) (hΓ : FlatOn Γ (readsE e)) (hσ : ∀ z ∈ readsE e, σ.get? z = Γ.get? z)
    (hstatic : evalE Φ N Γ [] C e = .ok (v, m)) (hlit : litOf v = some lit) (μ : Heap) (p : Pat) (t f rest : List Stmt) :
    evalBω Φ σ μ C (.assign p e :: rest) = evalBω Φ σ μ C (.assign p lit :: rest) ∧
    evalBω Φ σ μ C (.ret e :: rest) = evalBω Φ σ μ C (.ret lit :: rest) ∧
    evalBω Φ σ μ C (.assert e :: rest) = evalBω Φ σ μ C (.assert lit :: rest) ∧
    evalBω Φ σ μ C (.effect e :: rest) = evalBω Φ σ μ C (.effect lit :: rest) ∧
    evalBω Φ σ μ C (.ifte e t f :: rest) = evalBω Φ σ μ C (.ifte lit t f :: rest) ∧
    evalBω Φ σ μ C (.if1 e t :: rest) = evalBω Φ σ μ C (.if1 lit t :: rest) ∧
    evalBω Φ σ μ C (.for p e t :: rest) = evalBω Φ σ μ C (.for p lit t :: rest) := by
  have h := stmt_expr_congr (const_fold_expr hs hΓ hσ hstatic hlit μ) p t f
  exact ⟨block_head_congr h.1 rest, block_head_congr h.2.1 rest, block_head_congr h.2.2.1 rest,
    block_head_congr h.2.2.2.1 rest, block_head_congr h.2.2.2.2.1 rest, block_head_congr h.2.2.2.2.2.1 rest,
    block_head_congr h.2.2.2.2.2.2 rest⟩

/-- inside `with D:` (a literal context: the statically known context stack) the value to fold is the one
computed under `D`, whatever the context outside -/
theorem const_fold_under_with {Φ : Funs} {N : Nat} {σ : Env} {C D : Ctx} {e lit : Expr} {v : Val} {m : Heap}
    (hc : closedE e = true) (hstatic : evalE Φ N [] [] D e = .ok (v, m)) (hlit : litOf v = some lit) (μ : Heap)
    (p : Pat) (body : List Stmt) :
    evalSω Φ σ μ C (.with (.ctxLit D) none (.assign p e :: body)) =
      evalSω Φ σ μ C (.with (.ctxLit D) none (.assign p lit :: body)) := by
  rw [with_ctx_wrap, with_ctx_wrap]
  have he : evalEω Φ σ μ D e = evalEω Φ σ μ D lit := by
    rw [(const_fold_closed hc hstatic σ μ).1, evalEω_litOf hlit]
  exact block_head_congr (stmt_expr_congr he p [] []).1 body

/-- PARTIAL — MISSING: congruence for a folded sub-expression nested in a non-constant expression, `while`
conditions (the environment changes between iterations), list-valued constants (identity). -/
theorem const_fold_subexpr_partial {Φ : Funs} {σ : Env} {μ : Heap} {C : Ctx} {e e' : Expr}
    (h : evalEω Φ σ μ C e = evalEω Φ σ μ C e') (rest : List Stmt) :
    evalBω Φ σ μ C (.ret e :: rest) = evalBω Φ σ μ C (.ret e' :: rest) :=
  block_head_congr (stmt_expr_congr h (.var "_") [] []).2.1 rest

/-! ### non-vacuity -/

def add (a b : Expr) : Expr := .op .add [a, b]
def one : Expr := .num (.fv (.fin ⟨false, 0, 1⟩))

/-- `return x + a`  ↦  `return y + a` is accepted after `x = y` -/
example : simB (cpRel ["x", "y", "a"] "x" "y") [.ret (add (.var "y") (.var "a"))] [.ret (add (.var "x") (.var "a"))] = true := by
  decide

/-- F13: `y = y + 1; return x` ↦ `y = y + 1; return y` is REJECTED: the source of the copy is rebound -/
theorem copy_prop_rejects_redefinition :
    simB (cpRel ["x", "y"] "x" "y") [.assign (.var "y") (add (.var "y") one), .ret (.var "y")]
      [.assign (.var "y") (add (.var "y") one), .ret (.var "x")] = false := by decide

/-- … and rightly so: the two programs return different values (2 and 1 from `y = 1`) -/
def retNum : M (Outcome × Heap) → Option NV
  | .ok (.ret (.num a), _) => some a
  | _ => none

example : retNum (evalB ⟨[]⟩ 20 [("y", .num (.fv (.fin ⟨false, 0, 1⟩)))] [] fp64
      [.assign (.var "x") (.var "y"), .assign (.var "y") (add (.var "y") one), .ret (.var "x")])
    = some (.fv (.fin ⟨false, 0, 1⟩)) := by decide
example : retNum (evalB ⟨[]⟩ 20 [("y", .num (.fv (.fin ⟨false, 0, 1⟩)))] [] fp64
      [.assign (.var "x") (.var "y"), .assign (.var "y") (add (.var "y") one), .ret (.var "y")])
    = some (.fv (.fin ⟨false, 0, 2⟩)) := by decide

/-- the hypotheses of `copy_prop_subst_sound` and `dead_assign_elim` hold of concrete blocks -/
example : "x" ∉ bvB [.assign (.var "z") (add (.var "x") (.var "a")), .ret (.var "z")] := by decide
example : substB "x" "y" [.assign (.var "z") (add (.var "x") (.var "a")), .ret (.var "z")]
    = [.assign (.var "z") (add (.var "y") (.var "a")), .ret (.var "z")] := by
  simp [substB, renB, renS, renE, renEs, sub1, add]
example : "t" ∉ readsB [.ret (add (.var "x") (.var "a"))] := by decide

/-! ### folding under the wrong context is unsound -/

def one3 : Expr := .op .div [.num (.fv (.fin ⟨false, 0, 1⟩)), .num (.fv (.fin ⟨false, 0, 3⟩))]
def mp3 : Ctx := .mp 3 .rne (some 0) {}
/-- `with MPFloatContext(3): return 1/3` called under binary64 -/
def progW (e : Expr) : List Stmt := [.with (.ctxLit mp3) none [.ret e]]
/-- `1/3` under binary64 — the value a folder that ignored the `with` would substitute -/
def third64 : NV := .fv (.fin ⟨false, -54, 6004799503160661⟩)
/-- `1/3` with 3 digits — the value under the ACTIVE context -/
def third3 : NV := .fv (.fin ⟨false, -4, 5⟩)

example : closedE one3 = true := by decide
/-- the static evaluation under the active context `mp3`, and the sound fold … -/
example : retNum (evalB ⟨[]⟩ 10 [] [] fp64 (progW one3)) = some third3 := by decide
example : retNum (evalB ⟨[]⟩ 10 [] [] fp64 (progW (.num third3))) = some third3 := by decide
/-- … whereas folding with the value computed under the enclosing context changes what the program returns -/
theorem const_fold_wrong_context_unsound :
    retNum (evalB ⟨[]⟩ 10 [] [] fp64 (progW one3)) ≠ retNum (evalB ⟨[]⟩ 10 [] [] fp64 (progW (.num third64))) := by
  decide

end Fpy.Props.C07
