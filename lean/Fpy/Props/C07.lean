import Fpy.Model.Lang.Core
namespace Fpy.Props.C07
theorem placeholder : True := trivial
end Fpy.Props.C07
