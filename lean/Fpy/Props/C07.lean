/-
C07 — `simplify` (constant folding, copy propagation, dead-code elimination) never changes what a
program returns.

Approach: TRANSLATION VALIDATION at the level of the model.  `Fpy.Xform.simB R p' p`
(Model/Lang/Sim.lean) is an executable checker: `p'` is `p` up to the variable correspondence `R`.
`sim_sound` below is its soundness: accepted programs started in `R`-related environments have
the same outcome at every fuel.  Each rewrite of the real passes is then an instance:

* dead-code shapes that hold in every state (`dce_shapes_sound`, FULL): `if True/False`, `while False`,
  `assert True`, `pass`, code after `return` — exactly the cases of `dead_code._Eliminator`;
* `dead_assign_elim` (FULL for heap-neutral right-hand sides): `x = e; rest ≡ rest` when `x` is not
  read afterwards and `e` is pure and total in the model's sense; `dead_assign_elim_returns` is the
  direction the property states and needs no totality;
* `self_assign_elim` (FULL): `x = x` with `x` bound;
* `copy_prop_sound` (FULL): after `x = y`, replacing reads of `x` by `y` (all or some of them) in a
  block that rebinds neither — the repaired single-definition condition of `copy_propagate.py`;
  `copy_prop_rejects_redefinition` shows the checker refusing the F13 shape;
* `const_fold_assign_partial` (PARTIAL): replacing a right-hand side / returned expression by a literal
  is sound when the expression evaluates to that literal in the state at hand; what is missing is a
  model of `PartialEval` deciding that fact statically (which context is active, which names are
  constant) — that part of C07 rests on the differential runs of harness/c07.py.
-/
import Fpy.Proof.LangEntry
namespace Fpy.Props.C07
open Fpy Fpy.Lang Fpy.Xform

/-- soundness of the validator: same outcome at EVERY fuel (`RelM (OutRel R)`: same error, or same
returned value and heap, or `R`-related final environments and the same heap) -/
theorem sim_sound (Φ : Funs) (R : VRel) (n : Nat) {σ1 σ2 : Env} {p' p : List Stmt} (hinv : Inv R σ1 σ2)
    (h : simB R p' p = true) (μ : Heap) (C : Ctx) :
    RelM (OutRel R) (evalB Φ n σ1 μ C p') (evalB Φ n σ2 μ C p) :=
  (simAt Φ R n).evalB σ1 σ2 p' p hinv h μ C

/-- … hence the same `Returns` -/
theorem sim_returns (Φ : Funs) (R : VRel) {σ1 σ2 : Env} {p' p : List Stmt} (hinv : Inv R σ1 σ2)
    (h : simB R p' p = true) (μ : Heap) (C : Ctx) (v : Val) (μ' : Heap) :
    Returns Φ σ1 μ C p' v μ' ↔ Returns Φ σ2 μ C p v μ' := Fpy.Xform.sim_returns hinv h μ C v μ'

/-- evaluation depends only on the variables an expression reads -/
theorem evalE_congr_env (Φ : Funs) (n : Nat) {σ1 σ2 : Env} (μ : Heap) (C : Ctx) (e : Expr)
    (h : ∀ z ∈ readsE e, σ1.get? z = σ2.get? z) : evalE Φ n σ1 μ C e = evalE Φ n σ2 μ C e :=
  Fpy.Xform.evalE_congr_env Φ n μ C e h

/-- substitution lemma: `e[y/x]` evaluates like `e` where `x` and `y` hold the same value -/
theorem evalE_subst (Φ : Funs) (n : Nat) {σ : Env} (μ : Heap) (C : Ctx) {x y : String} (e : Expr)
    (hxy : σ.get? x = σ.get? y) (hx : x ∉ bvE e) (hy : y ∉ bvE e) :
    evalE Φ n σ μ C (renE (sub1 x y) e) = evalE Φ n σ μ C e := Fpy.Xform.evalE_subst Φ n μ C e hxy hx hy

/-- the state-independent dead-code shapes -/
theorem dce_shapes_sound (Φ : Funs) (A B rest : List Stmt) (e : Expr) :
    BEquiv Φ (.ifte (.bool true) A B :: rest) (A ++ rest) ∧
    BEquiv Φ (.ifte (.bool false) A B :: rest) (B ++ rest) ∧
    BEquiv Φ (.if1 (.bool true) A :: rest) (A ++ rest) ∧
    BEquiv Φ (.if1 (.bool false) A :: rest) rest ∧
    BEquiv Φ (.while (.bool false) A :: rest) rest ∧
    BEquiv Φ (.assert (.bool true) :: rest) rest ∧
    BEquiv Φ (.pass :: rest) rest ∧
    BEquiv Φ (.ret e :: rest) [.ret e] :=
  ⟨if_true_fold Φ A B rest, if_false_fold Φ A B rest, if1_true_fold Φ A rest, if1_false_elim Φ A rest,
    while_false_elim Φ A rest, assert_true_elim Φ rest, pass_elim Φ rest, after_return_elim Φ e rest⟩

/-- the remaining shapes of `dead_code._Eliminator`: empty branches, dead expression statements, empty
or doubled `with` blocks (the first two need no side condition, the others the purity the pass checks) -/
theorem dce_shapes_more (Φ : Funs) (c : Expr) (A B rest : List Stmt) (D D' : Ctx) :
    SEquiv Φ (.ifte c A [.pass]) (.if1 c A) ∧
    SEquiv Φ (.ifte c [.pass] B) (.if1 (.not c) B) ∧
    BEquiv Φ (.with (.ctxLit D) none [.pass] :: rest) rest ∧
    SEquiv Φ (.with (.ctxLit D) none [.with (.ctxLit D') none A]) (.with (.ctxLit D') none A) :=
  ⟨ifte_else_pass Φ c A, ifte_then_pass Φ c B, with_pass_elim Φ D rest, with_with_elim Φ D D' A⟩

theorem effect_elim {Φ : Funs} {σ : Env} {μ : Heap} {C : Ctx} {e : Expr} (hp : PureTotal Φ σ μ C e) (rest : List Stmt) :
    evalBω Φ σ μ C (.effect e :: rest) = evalBω Φ σ μ C rest := Fpy.Xform.effect_elim hp rest

theorem if1_pass_elim {Φ : Funs} {σ : Env} {μ : Heap} {C : Ctx} {c : Expr} {b : Bool}
    (hp : evalEω Φ σ μ C c = .ok (.bool b, μ)) (rest : List Stmt) :
    evalBω Φ σ μ C (.if1 c [.pass] :: rest) = evalBω Φ σ μ C rest := Fpy.Xform.if1_pass_elim hp rest

/-- from blocks to `f(*args)` versus `simplify(f)(*args)`: functions with equivalent bodies return the same -/
theorem entry_equiv {Φ : Funs} {f f' : String} {fd fd' : FuncDef} (hf : Φ.find? f = some fd) (hf' : Φ.find? f' = some fd')
    (hp : fd.params = fd'.params) (hc : fd.ctx = fd'.ctx) (hb : BEquiv Φ fd.body fd'.body)
    (args : List Val) (μ : Heap) (ctx : Option Ctx) (v : Val) (μ' : Heap) :
    (∃ n, callEntry Φ n f args μ ctx = .ok (v, μ')) ↔ (∃ n, callEntry Φ n f' args μ ctx = .ok (v, μ')) :=
  Fpy.Xform.entry_equiv hf hf' hp hc hb args μ ctx v μ'

/-- `BEquiv` is what the property needs and more -/
theorem bequiv_returns {Φ : Funs} {ss ss' : List Stmt} (h : BEquiv Φ ss ss') (σ : Env) (μ : Heap) (C : Ctx) (v : Val) (μ' : Heap) :
    Returns Φ σ μ C ss v μ' ↔ Returns Φ σ μ C ss' v μ' := h.returns

/-- dead assignment: `x` not read afterwards (so not returned), right-hand side pure and total -/
theorem dead_assign_elim {Φ : Funs} {x : String} {e : Expr} {rest : List Stmt} (hx : x ∉ readsB rest)
    {σ : Env} {μ : Heap} {C : Ctx} (hp : PureTotal Φ σ μ C e) (w : Val) (μ' : Heap) :
    Returns Φ σ μ C (.assign (.var x) e :: rest) w μ' ↔ Returns Φ σ μ C rest w μ' :=
  dead_assign_elim_syn hx hp w μ'

/-- … the direction C07 states, without totality -/
theorem dead_assign_elim_returns {Φ : Funs} {x : String} {e : Expr} {rest : List Stmt} (hx : x ∉ readsB rest)
    {σ : Env} {μ : Heap} {C : Ctx} (hp : HeapNeutral Φ σ μ C e) (w : Val) (μ' : Heap) :
    Returns Φ σ μ C (.assign (.var x) e :: rest) w μ' → Returns Φ σ μ C rest w μ' :=
  dead_assign_elim_syn_returns hx hp w μ'

/-- a bound variable or a literal is pure and total -/
theorem simple_is_pureTotal {Φ : Funs} {σ : Env} {μ : Heap} {C : Ctx} {e : Expr} (hs : simpleE e = true)
    (hb : ∀ z ∈ readsE e, (σ.get? z).isSome = true) : PureTotal Φ σ μ C e := pureTotal_of_simple hs hb

theorem self_assign_elim {Φ : Funs} {x : String} {rest : List Stmt} {σ : Env} {μ : Heap} {C : Ctx} {v : Val}
    (hb : σ.get? x = some v) (w : Val) (μ' : Heap) :
    Returns Φ σ μ C (.assign (.var x) (.var x) :: rest) w μ' ↔ Returns Φ σ μ C rest w μ' :=
  self_assign_elim_syn hb w μ'

/-- copy propagation, validator form: any `ss'` the checker accepts against `ss` under
"identity on `xs`, and `y` may stand for `x`" -/
theorem copy_prop_sound {Φ : Funs} {xs : List String} {x y : String} {ss ss' : List Stmt}
    (h : simB (cpRel xs x y) ss' ss = true) (σ : Env) (μ : Heap) (C : Ctx) (w : Val) (μ' : Heap) :
    Returns Φ σ μ C (.assign (.var x) (.var y) :: ss') w μ' ↔ Returns Φ σ μ C (.assign (.var x) (.var y) :: ss) w μ' :=
  Fpy.Xform.copy_prop_sound h σ μ C w μ'

/-- copy propagation, substitution form -/
theorem copy_prop_subst_sound {Φ : Funs} {x y : String} {ss : List Stmt} (hx : x ∉ bvB ss) (hy : y ∉ bvB ss)
    (σ : Env) (μ : Heap) (C : Ctx) (w : Val) (μ' : Heap) :
    Returns Φ σ μ C (.assign (.var x) (.var y) :: substB x y ss) w μ' ↔
      Returns Φ σ μ C (.assign (.var x) (.var y) :: ss) w μ' :=
  Fpy.Xform.copy_prop_subst_sound hx hy σ μ C w μ'

/-- constant folding of a right-hand side, given the value (PARTIAL: the analysis that supplies `h`
statically is not modelled) -/
theorem const_fold_assign_partial {Φ : Funs} {σ : Env} {μ : Heap} {C : Ctx} {e : Expr} {v : NV} (p : Pat) (rest : List Stmt)
    (h : evalEω Φ σ μ C e = .ok (.num v, μ)) :
    evalBω Φ σ μ C (.assign p e :: rest) = evalBω Φ σ μ C (.assign p (.num v) :: rest) := by
  rw [evalBω_cons', evalBω_cons', evalSω_assign, evalSω_assign, h, evalEω_num]

theorem const_fold_ret_partial {Φ : Funs} {σ : Env} {μ : Heap} {C : Ctx} {e : Expr} {v : NV} (rest : List Stmt)
    (h : evalEω Φ σ μ C e = .ok (.num v, μ)) :
    evalBω Φ σ μ C (.ret e :: rest) = evalBω Φ σ μ C (.ret (.num v) :: rest) := by
  rw [evalBω_cons', evalBω_cons', evalSω_ret, evalSω_ret, h, evalEω_num]

/-! ### non-vacuity -/

def add (a b : Expr) : Expr := .op .add [a, b]
def one : Expr := .num (.fv (.fin ⟨false, 0, 1⟩))

/-- `return x + a`  ↦  `return y + a` is accepted after `x = y` -/
example : simB (cpRel ["x", "y", "a"] "x" "y") [.ret (add (.var "y") (.var "a"))] [.ret (add (.var "x") (.var "a"))] = true := by
  decide

/-- F13: `y = y + 1; return x` ↦ `y = y + 1; return y` is REJECTED: the source of the copy is rebound -/
theorem copy_prop_rejects_redefinition :
    simB (cpRel ["x", "y"] "x" "y") [.assign (.var "y") (add (.var "y") one), .ret (.var "y")]
      [.assign (.var "y") (add (.var "y") one), .ret (.var "x")] = false := by decide

/-- … and rightly so: the two programs return different values (2 and 1 from `y = 1`) -/
def retNum : M (Outcome × Heap) → Option NV
  | .ok (.ret (.num a), _) => some a
  | _ => none

example : retNum (evalB ⟨[]⟩ 20 [("y", .num (.fv (.fin ⟨false, 0, 1⟩)))] [] fp64
      [.assign (.var "x") (.var "y"), .assign (.var "y") (add (.var "y") one), .ret (.var "x")])
    = some (.fv (.fin ⟨false, 0, 1⟩)) := by decide
example : retNum (evalB ⟨[]⟩ 20 [("y", .num (.fv (.fin ⟨false, 0, 1⟩)))] [] fp64
      [.assign (.var "x") (.var "y"), .assign (.var "y") (add (.var "y") one), .ret (.var "y")])
    = some (.fv (.fin ⟨false, 0, 2⟩)) := by decide

/-- the hypotheses of `copy_prop_subst_sound` and `dead_assign_elim` hold of concrete blocks -/
example : "x" ∉ bvB [.assign (.var "z") (add (.var "x") (.var "a")), .ret (.var "z")] := by decide
example : substB "x" "y" [.assign (.var "z") (add (.var "x") (.var "a")), .ret (.var "z")]
    = [.assign (.var "z") (add (.var "y") (.var "a")), .ret (.var "z")] := by
  simp [substB, renB, renS, renE, renEs, sub1, add]
example : "t" ∉ readsB [.ret (add (.var "x") (.var "a"))] := by decide

end Fpy.Props.C07
