/-
C05 — Number values behave as the real numbers they denote.
Property theorems only; helper lemmas live in `Fpy/Proof/Exact.lean` (value layer, `Float`
tables) and `Fpy/Proof/ExactMixed.lean` (five operand types, `float()`), the Spec in
`Fpy/Spec/ExtReal.lean` (extended reals with the IEEE rules) and `Fpy/Spec/Denote.lean`.

Vocabulary.  `x : RF` is a `RealFloat` `(s, exp, c)`; `x.val : Rat` is its denotation
(`as_rational`), `RF.sgn s = (-1)^s`.  `FV` is a `Float` (`fin x | inf s | nan s`),
`FV.den : FV → ExtVal` its denotation in the extended reals `nan | pinf | ninf | fin q`.
`Num` is a Python operand of one of the five types (`F` Float, `R` RealFloat, `I` int,
`D` float, `Q` Fraction), `Num.den` its denotation.  All theorems are unconditional over
`s, exp, c` (any encoding, zeros with any exponent, negative zero), hypotheses only name the
outcome of the operation (`= .ok r`).  Everything is proved at full strength; there is no
`_partial` theorem and no counterexample in this file (the four defects the checks found —
`+x` dropping the sign, `RealFloat * float(±inf)` sign and `0 * inf`, `RealFloat + Float`
raising — are repaired in /repo, and the model follows the repaired code).
-/
import Fpy.Proof.ExactMixed
namespace Fpy.Props.C05
open Fpy Fpy.Spec

/-! ## `RealFloat`: the denotation is a homomorphism -/

/-- normal form of the denotation -/
theorem val_eq (x : RF) : x.val = RF.sgn x.s * (x.c : Rat) * (2 : Rat) ^ x.exp := RF.val_eq x

theorem val_add (x y : RF) : (x.add y).val = x.val + y.val := RF.val_add x y

theorem val_sub (x y : RF) : (x.sub y).val = x.val - y.val := by
  unfold RF.sub; rw [RF.val_add, RF.val_neg, Rat.sub_eq_add_neg]

theorem val_mul (x y : RF) : (x.mul y).val = x.val * y.val := RF.val_mul x y

theorem val_pow (x : RF) (k : Nat) : (x.pow k).val = x.val ^ k := RF.val_pow x k

theorem val_neg (x : RF) : x.neg.val = -x.val := RF.val_neg x

theorem val_abs (x : RF) : x.abs.val = x.val.abs := RF.val_abs x

theorem val_pos (x : RF) : x.pos.val = x.val := RF.val_pos x

/-- redundant encodings denote the same number: `c·2^k` at `exp` is `c` at `exp + k` -/
theorem val_encoding (s : Bool) (e : Int) (c k : Nat) :
    (⟨s, e, c * 2 ^ k⟩ : RF).val = (⟨s, e + k, c⟩ : RF).val := RF.val_shift s e c k

/-- a zero denotes 0 whatever its exponent and sign -/
theorem val_zero (s : Bool) (e : Int) : (⟨s, e, 0⟩ : RF).val = 0 := RF.val_mk_zero s e

/-! ### signed zeros (IEEE 754 §6.3) -/

/-- a sum of two zeros is `-0` only when both are: `(+0) + (−0) = +0` -/
theorem add_zero_sign (s t : Bool) (e1 e2 : Int) :
    (RF.add ⟨s, e1, 0⟩ ⟨t, e2, 0⟩).s = (s && t) ∧ (RF.add ⟨s, e1, 0⟩ ⟨t, e2, 0⟩).c = 0 :=
  RF.add_zero_sign s t e1 e2

/-- exact cancellation of non-zero operands gives `+0` -/
theorem add_cancel_sign (x y : RF) (hx : x.c ≠ 0) (hy : y.c ≠ 0) (h : x.val + y.val = 0) :
    (x.add y).s = false ∧ (x.add y).c = 0 := RF.add_cancel_sign x y hx hy h

/-- the sign of a product is the XOR of the signs, zeros included -/
theorem mul_sign (x y : RF) : (x.mul y).s = (x.s != y.s) := RF.mul_sign x y

theorem pow_sign (x : RF) (k : Nat) (hk : k ≠ 0) : (x.pow k).s = (x.s && (k % 2 == 1)) := RF.pow_sign x k hk

/-! ### comparison -/

/-- `compare` is the three-way comparison of the denoted values, for any encodings -/
theorem compare_spec (x y : RF) : x.compare y = cmpRat x.val y.val := RF.compare_cmpRat x y

theorem compare_lt_iff (x y : RF) : x.compare y = .lt ↔ x.val < y.val := by
  rw [RF.compare_cmpRat]; exact RF.cmpRat_lt_iff _ _

theorem compare_eq_iff (x y : RF) : x.compare y = .eq ↔ x.val = y.val := by
  rw [RF.compare_cmpRat]; exact RF.cmpRat_eq_iff _ _

theorem compare_gt_iff (x y : RF) : x.compare y = .gt ↔ y.val < x.val := by
  rw [RF.compare_cmpRat]; exact RF.cmpRat_gt_iff _ _

/-- `==` on two `RealFloat`s is equality of the denoted values (`-0 == +0`, `c=4,exp=0 == c=1,exp=2`) -/
theorem eq_iff_val (x y : RF) : x.beqVal y = true ↔ x.val = y.val := by
  unfold RF.beqVal; rw [← compare_eq_iff]; simp

/-! ### digits: `split`, `normalize`, `is_more_significant`, `bit`, `int()` -/

theorem split_sum (x : RF) (n : Int) : (x.split n).1.val + (x.split n).2.val = x.val := RF.split_sum x n

/-- the high part has no digit at or below `n`, the low part none above `n`; both keep the sign -/
theorem split_ranges (x : RF) (n : Int) :
    (x.split n).1.exp ≥ n + 1 ∧ ((x.split n).2.c = 0 ∨ (x.split n).2.e ≤ n) ∧
    (x.split n).1.s = x.s ∧ (x.split n).2.s = x.s := RF.split_ranges x n

/-- `normalize(p, n)` returns the same number at the target exponent, with the same sign -/
theorem normalize_val (x y : RF) (p : Option Nat) (n : Option Int) (h : x.normalize p n = some y) :
    y.val = x.val ∧ y.exp = x.normTarget p n ∧ y.s = x.s := RF.normalize_val x y p n h

/-- `normalize` raises exactly when digits would be lost: when the value is not an integer
multiple of `2^target` -/
theorem normalize_none_iff (x : RF) (p : Option Nat) (n : Option Int) :
    x.normalize p n = none ↔ ¬ ∃ k : Int, x.val = (k : Rat) * (2 : Rat) ^ (x.normTarget p n) :=
  RF.normalize_none_iff x p n

/-- `is_more_significant(n)` ⇔ the value is an integer multiple of `2^(n+1)` -/
theorem isMoreSignificant_iff (x : RF) (n : Int) :
    x.isMoreSignificant n = true ↔ ∃ k : Int, x.val = (k : Rat) * (2 : Rat) ^ (n + 1) :=
  RF.isMoreSignificant_iff x n

/-- … and it is the docstring's "low part of `split(n)` is zero" -/
theorem isMoreSignificant_iff_split (x : RF) (n : Int) :
    x.isMoreSignificant n = ((x.split n).2.c == 0) := RF.isMoreSignificant_iff_split x n

/-- `bit(n)` is the parity of `⌊|x| / 2^n⌋` -/
theorem bit_spec (x : RF) (n : Int) :
    ∃ k : Nat, (k : Rat) * (2 : Rat) ^ n ≤ x.val.abs ∧ x.val.abs < ((k + 1 : Nat) : Rat) * (2 : Rat) ^ n ∧
      x.bit n = (k % 2 == 1) := RF.bit_spec x n

/-- `int(x)` returns exactly the value … -/
theorem toInt_val (x : RF) (i : Int) (h : x.toInt? = some i) : (i : Rat) = x.val := RF.toInt_some x i h

/-- … and raises exactly when the value is not an integer -/
theorem toInt_none_iff (x : RF) : x.toInt? = none ↔ ¬ ∃ k : Int, x.val = (k : Rat) := RF.toInt_none_iff x

/-- `is_identical_to` is equality of encodings -/
theorem isIdenticalTo_iff (x y : RF) : x.isIdenticalTo y = true ↔ x = y := by
  cases x; cases y; simp [RF.isIdenticalTo, and_assoc]

/-! ## `Float`: the special-value arms equal the extended-real tables -/

theorem fv_add (a b : FV) : (a.add b).den = a.den.add b.den := FV.add_den a b
theorem fv_sub (a b : FV) : (a.sub b).den = a.den.sub b.den := FV.sub_den a b
theorem fv_mul (a b : FV) : (a.mul b).den = a.den.mul b.den := FV.mul_den a b
theorem fv_neg (a : FV) : a.neg.den = a.den.neg := FV.neg_den a
theorem fv_abs (a : FV) : a.abs.den = a.den.abs := FV.abs_den a
/-- unary plus keeps the value (candidate F1, repaired: the sign is no longer dropped) -/
theorem pos_val (a : FV) : a.pos.den = a.den := FV.pos_den a
theorem fv_compare (a b : FV) : a.compare b = a.den.cmp b.den := FV.compare_den a b
/-- `x ** k`: refused for `k < 0`; `x ** 0 = 1` for every `x`; `(−∞)^k` has the parity sign -/
theorem fv_pow (a : FV) (k : Int) (r : FV) (h : a.powInt k = .ok r) : 0 ≤ k ∧ r.den = a.den.pow k.toNat :=
  FV.powInt_den a k r h

/-! ## any mix of `Float`, `RealFloat`, `int`, `float`, `Fraction` -/

/-- operand conversion (`from_int`, `from_float`, `from_rational`, `from_real`) keeps the value;
`from_rational` refuses exactly the non-dyadic fractions (`ofRational?` tests `isPow2 den`) -/
theorem convert_den (b : Num) (v : FV) (h : FV.ofNum b = .ok v) : v.den = b.den := FV.ofNum_den b v h

/-- `a + b`, `a - b`, `a * b` on any mix of the five types (Python dispatch included: reflected
operators for a native left operand, `RealFloat` deferring to `Float`): whenever the operator
returns, the result denotes the Spec operation on the denoted values. -/
theorem binop_den (op : Num.BinOp) (a b r : Num) (h : Num.binop op a b = .ok r) :
    r.den = op.spec a.den b.den := Num.binop_den op a b r h

/-- **no spurious refusal**: with at least one library operand and no non-dyadic `Fraction`, `+ - *`
always return — in particular `RealFloat <op> Float` in either order (candidate F19, repaired);
a non-dyadic `Fraction` has no exact `Float`, the only reason to raise -/
theorem binop_total (op : Num.BinOp) (a b : Num) (hfpy : a.isFpy = true ∨ b.isFpy = true)
    (ha : a.dyadic = true) (hb : b.dyadic = true) : ∃ r, Num.binop op a b = .ok r :=
  Num.binop_total op a b hfpy ha hb

/-- `a ** k` -/
theorem pow_den (a : Num) (k : Int) (r : Num) (h : Num.pow a k = .ok r) : 0 ≤ k ∧ r.den = a.den.pow k.toNat :=
  Num.pow_den a k r h

theorem pow_neg_exponent (a : Num) (k : Int) (hk : k < 0) : ∃ e, Num.pow a k = .error e :=
  Num.pow_neg_exponent a k hk

/-- `==`, `<`, `<=`, `>`, `>=` on any mix of the five types, either operand order: the operator
applied to the ordering of the denoted values; NaN is unordered. -/
theorem cmpOp_spec (op : Num.CmpOp) (a b : Num) (r : Bool) (h : Num.cmpOp op a b = .ok r) :
    r = op.test (a.den.cmp b.den) := Num.cmpOp_spec op a b r h

/-- the rich comparisons never raise when at least one operand is a library type -/
theorem cmpOp_total (op : Num.CmpOp) (a b : Num) (hfpy : a.isFpy = true ∨ b.isFpy = true) :
    ∃ r, Num.cmpOp op a b = .ok r := Num.cmpOp_total op a b hfpy

/-- `Float.compare(other)` for `other` of any of the five types -/
theorem float_compare_spec (a : FV) (b : Num) : a.compareNum b = a.den.cmp b.den := FV.compareNum_den a b

/-- `RealFloat.compare(other)` -/
theorem real_compare_spec (x : RF) (b : Num) (o : Option Ordering) (h : x.compareNum b = .ok o) :
    o = (ExtVal.fin x.val).cmp b.den := RF.compareNum_den x b o h

/-- equal values hash equally: the class key `__hash__` hashes through (the integer, else the
reduced fraction, else the NaN / ±∞ constants) depends only on the denoted value -/
theorem hash_class (a b : Num) (ka kb : RF.HashKey) (ha : Num.hashKey a = .ok ka)
    (hb : Num.hashKey b = .ok kb) (h : a.den = b.den) : ka = kb := Num.hash_class a b ka kb ha hb h

/-- `int(a)` returns exactly the value … -/
theorem int_conv (a : Num) (i : Int) (h : Num.toInt a = .ok i) : a.den = .fin (i : Rat) := Num.toInt_den a i h

/-- … and raises exactly when the value is not an integer (infinities, NaN included) -/
theorem int_conv_error_iff (a : Num) (hfpy : (∃ v, a = .F v) ∨ (∃ x, a = .R x)) :
    (∃ e, Num.toInt a = .error e) ↔ ¬ ∃ k : Int, a.den = .fin (k : Rat) := Num.toInt_error_iff a hfpy

/-- `float(a)` (binary64 rounding + `inexact ⇒ ValueError`) returns a float denoting exactly `a`,
or raises -/
theorem float_conv (a : Num) (w : FV) (h : Num.toFloat a = .ok w) : w.den = a.den := Num.toFloat_den a w h

/-- `a.as_rational()` returns exactly the value, or raises -/
theorem rational_conv (a : Num) (q : Rat) (h : Num.asRational a = .ok q) : a.den = .fin q :=
  Num.asRational_den a q h

/-! ## Non-vacuity: concrete values meeting the hypotheses, evaluated by the kernel -/

-- redundant encodings c=4,exp=0 and c=1,exp=2 compare equal; −0 == +0
example : (⟨false, 0, 4⟩ : RF).compare ⟨false, 2, 1⟩ = .eq ∧ (⟨true, -7, 0⟩ : RF).compare ⟨false, 3, 0⟩ = .eq := by decide
-- (+0) + (−0) = +0, (−0) + (−0) = −0, 3 + (−3) = +0
example : (RF.add ⟨false, 0, 0⟩ ⟨true, 5, 0⟩).s = false ∧ (RF.add ⟨true, 0, 0⟩ ⟨true, 5, 0⟩).s = true ∧
    (RF.add ⟨true, 0, 3⟩ ⟨false, -2, 12⟩) = ⟨false, -2, 0⟩ := by decide
-- a case where normalize succeeds and one where it must refuse; split of 13/4 at n = −1
example : (⟨true, -2, 12⟩ : RF).normalize (some 2) none = some ⟨true, 0, 3⟩ ∧
    (⟨true, -2, 13⟩ : RF).normalize (some 2) none = none ∧
    (⟨true, -2, 13⟩ : RF).split (-1) = (⟨true, 0, 3⟩, ⟨true, -2, 1⟩) := by decide
-- int(): −12·2^−1 = −6, 3·2^−1 is refused
example : (⟨true, -1, 12⟩ : RF).toInt? = some (-6) ∧ (⟨false, -1, 3⟩ : RF).toInt? = none := by decide
-- unary plus keeps a negative value; (−∞)^3 = −∞, (−∞)^2 = +∞, nan^0 = 1
example : FV.pos (.fin ⟨true, 0, 3⟩) = .fin ⟨true, 0, 3⟩ ∧
    (match FV.powInt (.inf true) 3 with | .ok v => v == .inf true | _ => false) = true ∧
    (match FV.powInt (.inf true) 2 with | .ok v => v == .inf false | _ => false) = true ∧
    (match FV.powInt (.nan false) 0 with | .ok v => v == .fin ⟨false, 0, 1⟩ | _ => false) = true := by decide
-- RealFloat * float(−inf) has the product sign, 0 * inf is NaN, RealFloat + Float is a Float
example : (match Num.binop .mul (.R ⟨false, 0, 3⟩) (.D (.inf true)) with | .ok (.D v) => v == .inf true | _ => false) = true ∧
    (match Num.binop .mul (.R ⟨false, 0, 0⟩) (.D (.inf false)) with | .ok (.D v) => v == .nan false | _ => false) = true := by
  decide
example : (match Num.binop .add (.R ⟨false, 0, 3⟩) (.F (.fin ⟨true, 1, 1⟩)) with
    | .ok (.F (.fin x)) => x == ⟨false, 0, 1⟩ | _ => false) = true := by decide
-- a non-dyadic Fraction operand is refused; comparison against it is exact
example : (match Num.binop .add (.R ⟨false, 0, 3⟩) (.Q 1 3) with | .error .valueError => true | _ => false) = true := by
  decide
-- float(): 2^53 + 1 is refused, the least subnormal converts
example : (match Num.toFloat (.R ⟨false, 0, 2 ^ 53 + 1⟩) with | .error .valueError => true | _ => false) = true ∧
    (match Num.toFloat (.R ⟨true, -1074, 1⟩) with | .ok (.fin x) => x == ⟨true, -1074, 1⟩ | _ => false) = true := by
  decide +kernel

end Fpy.Props.C05
