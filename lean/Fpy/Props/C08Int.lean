/-
C08 — `for` unrolling, with the two number-layer interfaces DISCHARGED.

`Props/C08.lean` states the three unrolling theorems for an arbitrary context `CI` of the emitted control code
under the hypotheses `IntArith CI` (integer `+`, `−`, `fmod` are exact under `CI`) and, for the STRICT `assert`,
`IntEq` (`==` on integer-valued numbers is equality of the integers).  `Proof/IntCtx.lean` proves both for the
context the transformation really emits, `fp.INTEGER = MPFixedContext(-1, RM.RTZ, enable_neg_zero=False)`
(`Lib.integerCtx`), from C02 (the operation is the exact result rounded once), C05 (the value is a homomorphism)
and C01v (a value on the grid is returned unchanged).  Here the headline statements are instantiated: no
number-layer hypothesis is left.
-/
import Fpy.Props.C08
import Fpy.Proof.IntCtx
namespace Fpy.Props.C08
open Fpy Fpy.Lang Fpy.Xform

/-- **`fp.INTEGER` is exact on integers**: for every representation of integers `a`, `b` that the interpreter reads
as an integer (`Float` in any encoding, either zero, integer-valued `Fraction`), `x + y`, `x − y` under `fp.INTEGER`
read as `a + b`, `a − b`, and for naturals with `0 < b`, `fmod(x, y)` reads as `a mod b`. -/
theorem intArith_INTEGER : IntArith Lib.integerCtx := Xform.intArith_INTEGER

/-- **`==` on integer-valued numbers is integer equality** (whatever the representations; `−0 == 0`). -/
theorem intEq : IntEq := Xform.intEq

/-- PEEL strategy, length not statically known, control code under `fp.INTEGER`: no number-layer hypothesis. -/
theorem for_unroll_peel_sound_INTEGER {Φ : Funs} {C : Ctx} {S : List String}
    {p : Pat} {it : Expr} {body rest : List Stmt} {t n m idx ridx : String} {offs : List String} {lits : List NV}
    {z0 zk z1 : NV} {k : Nat}
    (hk : offs.length + 1 = k) (hlits : offs.length = lits.length)
    (hl : ∀ j (h : j < lits.length), nvInt? lits[j] = some ((1 + j : Nat) : Int))
    (hz0 : nvInt? z0 = some 0) (hzk : nvInt? zk = some (k : Int)) (hz1 : nvInt? z1 = some 1)
    (hnd : (t :: n :: m :: ridx :: idx :: offs).Nodup)
    (hfresh : ∀ z ∈ t :: n :: m :: ridx :: idx :: offs, z ∉ S ∧ z ∉ bvP p ++ bvB body)
    (hbody : ∀ z ∈ readsB body, z ∈ S) (hrest : ∀ z ∈ readsB rest, z ∈ S)
    {σ : Env} {μ : Heap} (hwfh : WFH μ) (hwfe : WFE σ μ) :
    FinRel S (evalBω Φ σ μ C (.for p it body :: rest))
      (evalBω Φ σ μ C (forUnrollPeel Lib.integerCtx p it body t n m idx ridx offs lits z0 zk z1 ++ rest)) :=
  for_unroll_peel_sound Xform.intArith_INTEGER hk hlits hl hz0 hzk hz1 hnd hfresh hbody hrest hwfh hwfe

/-- STRICT strategy, length not statically known, `assert fmod(n, k) == 0` under `fp.INTEGER`. -/
theorem for_unroll_strict_sound_INTEGER {Φ : Funs} {C : Ctx} {S : List String}
    {p : Pat} {it : Expr} {body rest : List Stmt} {t n idx : String} {offs : List String} {lits : List NV}
    {z0 zk : NV} {k : Nat}
    (hk : offs.length + 1 = k) (hlits : offs.length = lits.length)
    (hl : ∀ j (h : j < lits.length), nvInt? lits[j] = some ((1 + j : Nat) : Int))
    (hz0 : nvInt? z0 = some 0) (hzk : nvInt? zk = some (k : Int))
    (hnd : (t :: n :: idx :: offs).Nodup)
    (hfresh : ∀ z ∈ t :: n :: idx :: offs, z ∉ S ∧ z ∉ bvP p ++ bvB body)
    (hbody : ∀ z ∈ readsB body, z ∈ S) (hrest : ∀ z ∈ readsB rest, z ∈ S)
    {σ : Env} {μ : Heap} (hwfh : WFH μ) (hwfe : WFE σ μ)
    (hdiv : ∀ r l μ0, evalEω Φ σ μ C it = .ok (.list r, μ0) → μ0[r]? = some l → l.length % k = 0) :
    FinRel S (evalBω Φ σ μ C (.for p it body :: rest))
      (evalBω Φ σ μ C (forUnrollStrict Lib.integerCtx p it body t n idx offs lits z0 zk ++ rest)) :=
  for_unroll_strict_sound Xform.intArith_INTEGER Xform.intEq hk hlits hl hz0 hzk hnd hfresh hbody hrest hwfh hwfe hdiv

/-- statically known length `k·q + zps.length`, control code under `fp.INTEGER`. -/
theorem for_unroll_static_sound_INTEGER {Φ : Funs} {C : Ctx} {S : List String}
    {p : Pat} {it : Expr} {body rest : List Stmt} {t idx : String} {offs : List String} {lits : List NV}
    {z0 zm zk : NV} {zps : List NV} {k q : Nat} {withMain : Bool}
    (hk : offs.length + 1 = k) (hlits : offs.length = lits.length)
    (hl : ∀ j (h : j < lits.length), nvInt? lits[j] = some ((1 + j : Nat) : Int))
    (hz0 : nvInt? z0 = some 0) (hzk : nvInt? zk = some (k : Int)) (hzm : nvInt? zm = some ((k * q : Nat) : Int))
    (hzps : ∀ j (h : j < zps.length), nvInt? zps[j] = some ((k * q + j : Nat) : Int))
    (hmain : withMain = false → q = 0)
    (hnd : (t :: idx :: offs).Nodup)
    (hfresh : ∀ z ∈ t :: idx :: offs, z ∉ S ∧ z ∉ bvP p ++ bvB body)
    (hbody : ∀ z ∈ readsB body, z ∈ S) (hrest : ∀ z ∈ readsB rest, z ∈ S)
    {σ : Env} {μ : Heap} (hwfh : WFH μ) (hwfe : WFE σ μ)
    (hsize : ∀ v μ0, evalEω Φ σ μ C it = .ok (v, μ0) → ∃ r l, v = .list r ∧ μ0[r]? = some l ∧ l.length = k * q + zps.length) :
    FinRel S (evalBω Φ σ μ C (.for p it body :: rest))
      (evalBω Φ σ μ C (forUnrollStatic Lib.integerCtx p it body t idx offs lits z0 zm zk zps withMain ++ rest)) :=
  for_unroll_static_sound Xform.intArith_INTEGER hk hlits hl hz0 hzk hzm hzps hmain hnd hfresh hbody hrest hwfh hwfe hsize

/-! non-vacuity: the corners the interfaces quantify over, evaluated (redundant encodings, `Fraction` operands, `−0`) -/

example : (opEval Lib.integerCtx .add [cvtReal (.fv (.fin ⟨false, -2, 28⟩)), cvtReal (.q (-9) 1)]).toOption.map nvInt? = some (some (-2)) := by decide
example : (opEval Lib.integerCtx .fmod [cvtReal (.fv (.fin ⟨true, 5, 0⟩)), cvtReal (.fv (.fin ⟨false, 0, 3⟩))]).toOption.map nvInt? = some (some 0) := by decide
example : (opEval Lib.integerCtx .fmod [cvtReal (.fv (.fin ⟨false, -2, 28⟩)), cvtReal (.fv (.fin ⟨false, 0, 3⟩))]).toOption.map nvInt? = some (some 1) := by decide
example : nvInt? (.fv (.fin ⟨true, 5, 0⟩)) = some 0 ∧ nvInt? (.fv (.fin ⟨false, -2, 28⟩)) = some 7 ∧ nvInt? (.q 7 1) = some 7 := by decide
example : (Lang.nvCompare (.fv (.fin ⟨true, 5, 0⟩)) (.q 0 1) == some .eq) = true := by decide
example : (Lang.nvCompare (.fv (.fin ⟨false, -2, 28⟩)) (.q 7 1) == some .eq) = true := by decide
example : (Lang.nvCompare (.fv (.fin ⟨false, -2, 28⟩)) (.fv (.fin ⟨false, 3, 1⟩)) == some .eq) = false := by decide
example : valEq [] 1 (.num (.fv (.fin ⟨true, 5, 0⟩))) (.num (.q 0 1)) = .ok true :=
  intEq.eq _ _ 0 0 [] 0 (by decide) (by decide)

end Fpy.Props.C08
