/-
C11 — compiled C++ agrees bit for bit with the interpreter.  **PARTIAL**: a Lean semantics of the
emitted C++ (3.8k-line emitter, `shared_ptr` handles, `fesetround`) is out of reach.  What is proved
here is the *decision logic* the emitter relies on; the emitter and the toolchain are tied to the
interpreter by differential compile-and-run testing in `harness/c11.py` (testing, not proof).

Model: `Fpy/Model/Storage.lean` — the storage ladder and `choose_storage_scalar`, `scalar_fits_in`,
the op table of `target.make_op_table` and phases (1)/(2) of `CppEmitter._dispatch`, as written today
(tied to the real functions on a grid by the harness); machine types as value sets `values T`.
Spec: `γ` of C14 (`Fpy/Spec/AbsFmt.lean`): the values an inferred format denotes.

* `storage_sound` — the ladder search is sound: every value of the inferred format is a value of the
  chosen machine type (−0, NaN/inf, a fractional quantum, the bounds each keep a format off an
  integer rung).  `narrow_id` is its corollary: the narrowing cast the emitter inserts is the identity.
* `storage_sound_counterexample` — the `MPFixedFormat` fallback to `int64_t` ignores the magnitude
  (documented by the backend as "the user's problem"): `storage_sound_partial` excludes it.
* `ladder_exact`, `ladder_monotone` — a rung's abstract format denotes exactly the machine type's
  values; `scalar_fits_in a b` implies `values a ⊆ values b`.
* `dispatch_contract` — for `+ - * / sqrt fma` under the eight hardware contexts: the signature
  `_dispatch` selects computes in the active context's type and rounding mode, after value-preserving
  operand conversions; hence, UNDER THE HYPOTHESIS `Hardware.correct` (the machine operation is the
  IEEE correctly rounded one in the current `fesetround` mode — a structure field, not an axiom), the
  machine result is the interpreter's `opEval`.
* `int_add_no_overflow`, `int_sub_no_overflow`, `int_mul_no_overflow_partial` — an integer operation
  whose exact-result format fits a rung cannot overflow it; `int_direct_match_overflow_counterexample`
  — the direct match `intN + intN` under a wrap-around `SINTn` context is NOT covered by that;
  `int_mul_neg_zero_counterexample` — finding F29 (C14) seen from the storage: `SINT8 * SINT8` is stored
  as `int16_t`, which cannot hold the `-0` the interpreter returns for `(-2)·(+0)`.
-/
import Fpy.Proof.Storage
import Fpy.Proof.Dispatch
import Fpy.Props.C14
namespace Fpy.C11
open Fpy AbsFmt

/-! ### the storage ladder -/

/-- a format that fits a rung is contained in the machine type -/
theorem fitsRung_sound (a : AbsFmt) (T : MachTy) (h : fitsRung a T = true) (v : FV) (hv : γ a v) : values T v := by
  unfold fitsRung at h
  cases hl : ladderFmt T with
  | none => rw [hl] at h; cases h
  | some l =>
    rw [hl] at h
    have hb := Fpy.Props.C14.le_sound a l (ladderFmt_wf T l hl) h v hv
    exact (gamma_ladder_iff T l hl v).1 hb

/-- **the ladder search is sound**: `chooseLadder a = T → γ a ⊆ values T` -/
theorem storage_sound (a : AbsFmt) (T : MachTy) (h : chooseLadder a = some T) (v : FV) (hv : γ a v) : values T v :=
  fitsRung_sound a T (by unfold chooseLadder at h; exact List.find?_some h) v hv

/-- `choose_storage_scalar` is sound whenever the answer comes from the ladder (not from the
unbounded-integer fallback) -/
theorem storage_sound_partial (b : Bound) (T : MachTy) (h : chooseStorageScalar b = some T)
    (hlad : ∀ a mp, b = .fmt a mp → chooseLadder a ≠ none) (v : FV) (hv : γB b v) : values T v := by
  cases b with
  | none => exact absurd hv (by simp [γB])
  | real => simp [chooseStorageScalar] at h
  | other => simp [chooseStorageScalar] at h
  | bottom => exact absurd hv (by simp [γB])
  | fmt a mp =>
    simp only [chooseStorageScalar] at h
    cases hl : chooseLadder a with
    | none => exact absurd hl (hlad a mp rfl)
    | some T' =>
      rw [hl] at h
      injection h with h
      subst h
      exact storage_sound a _ hl v hv

/-- the fallback is unsound for the value sets: `INTEGER`'s format is stored as `int64_t`, `2^63` is one of
its values.  (Deliberate, per the comment in `choose_storage_scalar`: "overflow is the user's problem".)
Python: `choose_storage_scalar(fp.INTEGER.format())` is `CppScalar.S64`. -/
theorem storage_sound_counterexample :
    chooseStorageScalar NativeCtx.integer.bound = some .s64 ∧
    γB NativeCtx.integer.bound (.fin ⟨false, 0, 2 ^ 63⟩) ∧ ¬ values .s64 (.fin ⟨false, 0, 2 ^ 63⟩) := by
  refine ⟨by decide, ?_, ?_⟩
  · simp only [γB, NativeCtx.bound, γ, finMem]
    refine ⟨⟨⟨false, 0, 2 ^ 63⟩, by decide, rfl, nofun, fun E h => by cases h; decide⟩, rfl, rfl⟩
  · simp only [values, intValues]
    rintro ⟨_, m, hd, _, hhi⟩
    unfold denotes at hd
    have h0 : ((0 : Int) - min 0 0).toNat = 0 := by decide
    simp only [h0, Nat.pow_zero, Nat.mul_one] at hd
    subst hd
    exact absurd hhi (by decide)

/-- **narrowing casts are identities**: a `static_cast` to the storage chosen for a format changes no
value of that format -/
theorem narrow_id (cs : CastSem) (a : AbsFmt) (T : MachTy) (h : chooseLadder a = some T) (v : FV) (hv : γ a v) :
    cs.cast T v = v :=
  cs.exact T v (storage_sound a T h v hv)

/-- a rung's abstract format denotes exactly the values of the machine type -/
theorem ladder_exact (T : MachTy) (l : AbsFmt) (h : ladderFmt T = some l) (v : FV) : γ l v ↔ values T v :=
  gamma_ladder_iff T l h v

/-- **`scalar_fits_in a b` implies `values a ⊆ values b`** (a format that fits a smaller rung fits every
rung the smaller one fits in) -/
theorem ladder_monotone (A B : MachTy) (h : scalarFitsIn A B = true) (v : FV) (hv : values A v) : values B v := by
  unfold scalarFitsIn at h
  cases ha : ladderFmt A with
  | none =>
    have : A = .bool := by cases A <;> simp [ladderFmt] at ha <;> rfl
    subst this; exact absurd hv (by simp [values])
  | some fa =>
    cases hb : ladderFmt B with
    | none =>
      rw [ha, hb] at h
      have hB : B = .bool := by cases B <;> simp [ladderFmt] at hb <;> rfl
      subst hB
      have : A = .bool := by simpa using h
      subst this; simp [ladderFmt] at ha
    | some fb =>
      rw [ha, hb] at h
      have h1 := (gamma_ladder_iff A fa ha v).2 hv
      have h2 := Fpy.Props.C14.le_sound fa fb (ladderFmt_wf B fb hb) h v h1
      exact (gamma_ladder_iff B fb hb v).1 h2

theorem ladder_monotone_fits (a : AbsFmt) (A B : MachTy) (ha : fitsRung a A = true) (h : scalarFitsIn A B = true)
    (v : FV) (hv : γ a v) : values B v :=
  ladder_monotone A B h v (fitsRung_sound a A ha v hv)

/-! ### op dispatch -/

/-- **the dispatch contract** for `+ - * / sqrt fma` under `IEEEContext(8,32,rm)` / `IEEEContext(11,64,rm)`,
`rm ∈ {RNE, RTZ, RTP, RTN}`: whatever signature `_dispatch` selects — directly, or after casting every
operand into the active context's storage — the machine result is the value `opEval` gives for the same
operands under the active context.  Assumes `hw.correct` (the hardware/libm operation is the IEEE
correctly rounded one in the current `fesetround` mode) and `cs.exact` (value-preserving conversions). -/
theorem dispatch_contract (hw : Hardware) (cs : CastSem) (nd : Node) (hnd : nd ∈ crNodes)
    (tys : List MachTy) (dbl : Bool) (rm : HwRM) (s : Sig) (hd : dispatch nd tys (.fp dbl rm) = some s)
    (args : List FV) (hargs : ValuesOf tys args) (r : FV)
    (hr : opEval (NativeCtx.fp dbl rm).toCtx nd.toOp (args.map NV.fv) = .ok (.fv r)) :
    ∃ out, machEval hw cs nd s args = some out ∧ sameValue out r := by
  obtain ⟨hctx, hin, hlen, hfit⟩ := dispatch_fp_shape nd tys dbl rm s hd
  have hlenA : args.length = nd.arity := by rw [← hlen]; exact hargs.length_eq.symm
  -- every operand is a value of the context's type (the operand conversions widen)
  have hvals : ∀ a ∈ args, values (fpTy dbl) a := by
    intro a ha
    obtain ⟨t, ht, hta⟩ := hargs.mem a ha
    rcases hfit t ht with h | h
    · rw [← h]; exact hta
    · exact ladder_monotone t (fpTy dbl) h a hta
  refine ⟨hw.op nd dbl rm args, ?_, hw.correct nd dbl rm args r hnd hlenA hvals hr⟩
  unfold machEval
  rw [hctx, hin, ← hlenA, zipWith_cast_id cs (fpTy dbl) args hvals]

/-! ### integer operations -/

/-- an integer (or any) sum whose exact-result format fits a rung is a value of that rung: the machine
addition in that type cannot overflow -/
theorem int_add_no_overflow (a b c : AbsFmt) (ha : a.WF) (hb : b.WF) (hc : a.add b = .ok c) (T : MachTy)
    (hT : chooseLadder c = some T) (x y : FV) (hx : γ a x) (hy : γ b y) : values T (x.add y) :=
  storage_sound c T hT _ (Fpy.Props.C14.add_sound a b c ha hb hc x y hx hy)

theorem int_sub_no_overflow (a b c : AbsFmt) (ha : a.WF) (hb : b.WF) (hc : a.sub b = .ok c) (T : MachTy)
    (hT : chooseLadder c = some T) (x y : FV) (hx : γ a x) (hy : γ b y) : values T (x.sub y) :=
  storage_sound c T hT _ (Fpy.Props.C14.sub_sound a b c ha hb hc x y hx hy)

/-- products: under the hypothesis of C14's `mul_sound_partial` (the abstract product is unsound at the
sign of a zero product: `__mul__` sets `has_neg_zero = a.has_neg_zero or b.has_neg_zero` — finding F29,
C14 counterexample).  Missing for full strength: exactly that region. -/
theorem int_mul_no_overflow_partial (a b c : AbsFmt) (ha : a.WF) (hb : b.WF) (hc : a.mul b = .ok c)
    (T : MachTy) (hT : chooseLadder c = some T) (x y : FV) (hx : γ a x) (hy : γ b y)
    (hz : ∀ p q, x = .fin p → y = .fin q → (p.mul q).c = 0 → (p.mul q).s = true → (a.negZero || b.negZero) = true) :
    values T (x.mul y) :=
  storage_sound c T hT _ (Fpy.Props.C14.mul_sound_partial a b c ha hb hc x y hx hy hz)

/-- the sign of a zero product reaches the storage: `SINT8 * SINT8` is stored as `int16_t`, and
`(-2)·(+0) = -0` is not an `int16_t` value (C14's `mul_sound_counterexample_neg_zero`, seen from C11).
Python: `with fp.REAL: b = x * y` on `SINT8` arguments `(-128, 0)`: the interpreter returns `-0`, the compiled
`int16_t` product is `0`. -/
theorem int_mul_neg_zero_counterexample :
    ∃ c, (sintFmt 8).mul (sintFmt 8) = .ok c ∧ chooseLadder c = some .s16 ∧
      γ (sintFmt 8) (.fin ⟨true, 0, 2⟩) ∧ γ (sintFmt 8) (.fin ⟨false, 0, 0⟩) ∧
      ¬ values .s16 (FV.mul (.fin ⟨true, 0, 2⟩) (.fin ⟨false, 0, 0⟩)) := by
  refine ⟨⟨some 16, some 0, .fin ⟨false, 0, 16384⟩, .fin ⟨true, 0, 16256⟩, false, false, false, false⟩,
    by rfl, by decide, ?_, by simp [γ, finMem], ?_⟩
  · simp only [γ, finMem]
    refine ⟨⟨⟨true, 0, 2⟩, by decide, rfl, nofun, fun E h => by cases h; decide⟩, by decide, by decide⟩
  · simp [values, intValues, FV.mul, RF.mul]

/-- `_dispatch` has a direct match `int32_t + int32_t` under `SINT32` (a wrap-around context), and the exact
sum of two `int32_t` values need not be an `int32_t` value: the machine addition overflows (undefined
behaviour for a signed type) where the interpreter wraps.  The `no_overflow` theorems do not cover
the same-width direct match. -/
theorem int_direct_match_overflow_counterexample :
    dispatch .add [.s32, .s32] (.sint 32) = some ⟨"+", [.s32, .s32], .sint 32⟩ ∧
    values .s32 (.fin ⟨false, 0, 2147483647⟩) ∧ values .s32 (.fin ⟨false, 0, 1⟩) ∧
    ¬ values .s32 (FV.add (.fin ⟨false, 0, 2147483647⟩) (.fin ⟨false, 0, 1⟩)) := by
  refine ⟨by decide, ?_, ?_, ?_⟩
  · exact ⟨by decide, 2147483647, by simp [denotes], by decide, by decide⟩
  · exact ⟨by decide, 1, by simp [denotes], by decide, by decide⟩
  · have hsum : FV.add (.fin ⟨false, 0, 2147483647⟩) (.fin ⟨false, 0, 1⟩) = .fin ⟨false, 0, 2147483648⟩ := by decide
    rw [hsum]
    simp only [values, intValues]
    rintro ⟨_, m, hd, _, hhi⟩
    unfold denotes at hd
    have h0 : ((0 : Int) - min 0 0).toNat = 0 := by decide
    simp only [h0, Nat.pow_zero, Nat.mul_one] at hd
    subst hd
    exact absurd hhi (by decide)

/-! ### non-vacuity -/

/-- the hypotheses of `dispatch_contract` are satisfiable, and the model evaluates the operations it speaks of -/
example : ∃ out, machEval Hardware.model CastSem.id .add ⟨"+", [.f64, .f64], .fp true .rtz⟩ [.fin ⟨false, 0, 1⟩, .fin ⟨false, 0, 2⟩] = some out ∧
    sameValue out (.fin ⟨false, 0, 3⟩) := by
  have h1 : values .f32 (.fin ⟨false, 0, 1⟩) := Or.inr ⟨1, 0, by decide, by decide, by decide, by simp [denotes]⟩
  have h2 : values .f64 (.fin ⟨false, 0, 2⟩) := Or.inr ⟨2, 0, by decide, by decide, by decide, by simp [denotes]⟩
  exact dispatch_contract Hardware.model CastSem.id .add (by decide) [.f32, .f64] true .rtz _ (by decide) _
    (.cons h1 (.cons h2 .nil)) _ (by rfl)

example : chooseLadder (sintFmt 8) = some .s8 ∧ chooseLadder (uintFmt 8) = some .u8 ∧
    chooseLadder (ieeeFmt 24 (-149) 104) = some .f32 ∧ chooseLadder (ieeeFmt 53 (-1074) 971) = some .f64 := by decide

/-- `int8 + int8` is stored as `int16_t` -/
example : ∃ c, (sintFmt 8).add (sintFmt 8) = .ok c ∧ chooseLadder c = some .s16 :=
  ⟨_, rfl, by decide⟩

/-- `-0` keeps an integer-valued format off the integer rungs: `{-0, 0, 1}` is stored as `float` -/
example : chooseLadder { prec := none, exp := some 0, pos := .fin ⟨false, 0, 1⟩, neg := .fin ⟨false, 0, 0⟩, negZero := true } = some .f32 := by decide

/-- a NaN flag does the same; a half-integer quantum too -/
example : chooseLadder { prec := none, exp := some 0, pos := .fin ⟨false, 0, 1⟩, neg := .fin ⟨false, 0, 0⟩, nan := true } = some .f32 ∧
    chooseLadder { prec := none, exp := some (-1), pos := .fin ⟨false, 0, 1⟩, neg := .fin ⟨false, 0, 0⟩ } = some .f32 := by decide

example : dispatch .add [.f32, .f64] (.fp true .rtz) = some ⟨"+", [.f64, .f64], .fp true .rtz⟩ ∧
    dispatch .add [.f32, .f64] (.fp false .rne) = none ∧
    dispatch .fma [.f32, .f32, .f32] (.fp false .rtp) = some ⟨"std::fma", [.f32, .f32, .f32], .fp false .rtp⟩ := by decide

example : values .f32 (.fin ⟨false, -149, 1⟩) ∧ values .s8 (.fin ⟨true, 0, 128⟩) ∧ ¬ values .s8 (.fin ⟨true, 0, 0⟩) := by
  refine ⟨Or.inr ⟨1, -149, by decide, by decide, by decide, by simp [denotes]⟩,
    ⟨by decide, 128, by simp [denotes], by decide, by decide⟩, ?_⟩
  simp [values, intValues]

end Fpy.C11
