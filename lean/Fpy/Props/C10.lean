/-
C10 — Rounding-lowering rewrites leave the rounding function unchanged.
Property theorems only; the model of what the rewrites emit is `Fpy/Model/Lower.lean`, "the same result" is
`Fpy/Spec/Lower.lean` (`sameFV`: same class, same sign, same number; `obsEq`: that plus `inexact`/`overflow`,
or the same error), helper lemmas are `Fpy/Proof/Lower*.lean`.

Vocabulary: `mpbRoundAt c` / `mpbfixRoundAt c` are `MPBFloatContext._round_at` / `MPBFixedContext._round_at`
(bounded float / bounded fixed-point; `IEEEContext`, `EFloatContext`, `FixedContext`, `SMFixedContext` are built on
them), `Ctx.mps` / `Ctx.mpfix` their unbounded counterparts, `x.round (some p) minN rm` / `x.round none (some n) rm`
the float / fixed-point rounding cores of `RealFloat`.
-/
import Fpy.Proof.LowerChain
namespace Fpy.Props.C10
open Fpy Fpy.Spec Fpy.C10

/-! ## `float_to_fixed` -/

/-- **Float rounding is fixed-point rounding at the position the float rounding chose** (`float_to_fixed.py`'s
premise).  For every non-zero operand, every precision `p ≥ 1`, with or without a least position, every mode:
both roundings succeed, keep the sign, denote the same number (a carry is re-normalised), set the same `inexact`
and no `overflow`. -/
theorem float_to_fixed_id (x : RF) (p : Nat) (minN : Option Int) (rm : RM) (hc : x.c ≠ 0) (hp : 1 ≤ p) :
    ∃ y fl y' fl', x.round (some p) minN rm = .ok (y, fl) ∧
      x.round none (some (floatPos x p minN)) rm = .ok (y', fl') ∧
      y.s = x.s ∧ y'.s = x.s ∧ y.eqV y' ∧ fl.inexact = fl'.inexact ∧ fl.overflow = false ∧ fl'.overflow = false :=
  float_fixed_round x p minN rm hc hp

/-- **The emitted position formula.**  With `e = logb(x)`, `EXP = emin − P + 1`: the program's
`if e < emin: EXP − 1 else: min(max(e − (P − 1), EXP), EXPMAX) − 1` is the float rounding's own position
`max(emin − P, e − P)` whenever the upper clamp is idle (`e − P + 1 ≤ EXPMAX`, or no bound at all) … -/
theorem float_to_fixed_position (p : Nat) (emin : Int) (expmax : Option Int) (e : Int)
    (h : ∀ M, expmax = some M → e - ((p : Int) - 1) ≤ M) :
    f2fPos p (some (emin, emin - p + 1)) expmax e = max (emin - p) (e - p) :=
  f2fPos_unclamped p emin expmax e h

/-- … is `e − P` for a format without subnormals … -/
theorem float_to_fixed_position_nosub (p : Nat) (e : Int) : f2fPos p none none e = e - p := f2fPos_nosub p e

/-- … and is `EXPMAX − 1` once the clamp is active (every such operand overflows, see `float_to_fixed_ctx_id`). -/
theorem float_to_fixed_position_clamped (p : Nat) (emin M e : Int) (hM : emin - p + 1 ≤ M) (h : M < e - ((p : Int) - 1)) :
    f2fPos p (some (emin, emin - p + 1)) (some M) e = M - 1 := f2fPos_clamped p emin M e hM h

/-- **`float_to_fixed` reproduces a bounded float context.**  For every deterministic `MPBFloatContext` `c` with
`p ≥ 1` digits whose positive bound is a value of the format and whose negative bound is its mirror image (what
the rewrite requires), `emax` no smaller than the bound's exponent, every rounding mode, every overflow policy the
rewrite's probe accepts (`policyOf c = some pol`: INFINITE, SATURATING or NAN_ON_OVERFLOW — a context it cannot
reproduce has `policyOf c = none` and is refused), and every finite non-zero operand — normal, subnormal, at, just
past or far past the overflow threshold — rounding under the emitted
`MPBFixedContext(n, maxval, rm, overflow=…, …)` at the emitted position gives the same value (sign included), the
same `inexact` and the same `overflow` flag as rounding under `c`. -/
theorem float_to_fixed_ctx_id (c : MPBParams) (pol : Policy) (emax : Int) (hk : c.k = some 0) (hp : 1 ≤ c.p)
    (hpos : BoundOk c.p c.nmin c.posMax) (hps : c.posMax.s = false) (hm : c.negMax = c.posMax.neg)
    (hemax : c.posMax.e ≤ emax) (hee : c.emin ≤ emax)
    (hpol : policyOf c = some pol) (x : RF) (hx : x.c ≠ 0) :
    obsEq (mpbRoundAt c (.fin x) none false 0) (f2fBounded c pol true emax x) :=
  f2f_bounded c pol emax hk hp hpos hps hm hemax hee hpol x hx

/-- **`float_to_fixed` reproduces an unbounded float context** (`MPSFloatContext`; what `unfold_overflow` leaves
behind): every precision `p ≥ 1`, every `emin`, every mode, every NaN / infinity option, every finite non-zero
operand: rounding under the emitted `MPBFixedContext(n, reach, rm, overflow=ASSERT)` — `reach = 2^emin` in the
subnormal branch, `2^(exp + P)` in the normal one — never trips the assertion and gives the value and `inexact`
flag of the float rounding. -/
theorem float_to_fixed_unbounded_id (p : Nat) (emin : Int) (rm : RM) (o : Opts) (hp : 1 ≤ p) (x : RF) (hx : x.c ≠ 0) :
    obsEq ((Ctx.mps p emin rm (some 0) o).roundAtCore (.fin x) none false 0) (f2fUnbounded p emin rm x) :=
  f2f_unbounded p emin rm o hp x hx

/-- `IEEEContext` (and any `EFloatContext` with infinities and the IEEE NaN layout) adds nothing to its
`MPBFloatContext` on a finite operand, so `float_to_fixed_ctx_id` is about it as well. -/
theorem ieee_is_mpb (c : EFloatParams) (hinf : c.inf = true) (hkind : c.kind = .ieee) (x : RF) :
    (Ctx.efloat c).roundAtCore (.fin x) none false 0 = mpbRoundAt c.mpb (.fin x) none false 0 := by
  have e : (Ctx.efloat c).roundAtCore (.fin x) none false 0 =
      (match mpbRoundAt c.mpb (.fin x) none false 0 with
       | .error e => .error e
       | .ok res => efloatFixup c res) := by
    unfold Ctx.roundAtCore; rfl
  rw [e]
  cases h : mpbRoundAt c.mpb (.fin x) none false 0 with
  | error e => rfl
  | ok r =>
    simp only
    unfold efloatFixup
    cases hv : r.v <;> simp [hinf, hkind]

/-- the overflow rule of the emitted context is the source's, for either sign (value and flags) -/
theorem float_to_fixed_policy (c : MPBParams) (pol : Policy) (nz : Bool) (n : Int) (hk : c.k = some 0)
    (hpos : BoundOk c.p c.nmin c.posMax) (hps : c.posMax.s = false) (hm : c.negMax = c.posMax.neg)
    (hpol : policyOf c = some pol) (s : Bool) :
    obsEq (mpbOverflow c s s) (mpbfixOverflow (f2fTarget c pol nz n) s s) := by
  have hneg : BoundOk c.p c.nmin c.negMax := by rw [hm]; exact hpos
  have hns : c.negMax.s = true := by rw [hm]; unfold RF.neg; simp [hps]
  have hpolA : policyOfArms c = some pol := by rw [← policyOf_eq_arms c hk hpos hps hneg hns]; exact hpol
  exact policy_arms c pol nz n hpolA hpos.1 hps hm s

/-! ## `rescale_fixed` -/

/-- **Shift invariance of the rounding core**: rounding `x · 2^j` at position `n + j` is `2^j ·` (rounding `x` at
position `n`), with *all* flags equal, in every mode. -/
theorem rescale_core (x : RF) (n j : Int) (rm : RM) (hc : x.c ≠ 0) :
    (shiftRF x j).round none (some (n + j)) rm =
      (match x.round none (some n) rm with
       | .ok (y, fl) => .ok (shiftRF y j, fl)
       | .error e => .error e) :=
  round_fixed_shift x n j rm hc

/-- **`rescale_fixed` reproduces every bounded fixed-point context**: any rounding mode, any overflow mode
(wrapping included), signed zero on or off, NaN / infinity enabled or substituted by a non-finite value (a finite
substitute is refused by the rewrite: it would have to shift too), and *every* operand — finite, zero of either
sign, infinite, NaN: scale in by `2^k`, round under the format moved by `2^k` (position and both bounds), scale
out — same value, same `inexact`, same `overflow`, or the same error.  (`k = −scale` puts the format at digit
position zero.) -/
theorem rescale_id (c : MPBFixParams) (hk : c.k = some 0) (k : Int) (v : FV)
    (hnv : ∀ w, c.o.nanValue = some w → w.isNar = true) (hiv : ∀ w, c.o.infValue = some w → w.isNar = true) :
    obsEq (mpbfixRoundAt c v none false 0) (rescaleProg c k v) :=
  rescale_mpbfix c hk k v hnv hiv

/-- the link of the chain `float_to_fixed → rescale_fixed`: the context `float_to_fixed` emits is one
`rescale_fixed` reproduces (deterministic, substitutes non-finite) -/
theorem chain_float_to_fixed_then_rescale (c : MPBParams) (pol : Policy) (nz : Bool) (n k : Int) (v : FV) :
    obsEq (mpbfixRoundAt (f2fTarget c pol nz n) v none false 0) (rescaleProg (f2fTarget c pol nz n) k v) := by
  obtain ⟨h1, h2⟩ := f2fTarget_subs c pol nz n
  apply rescale_mpbfix _ rfl
  · intro w hw; rw [h1] at hw; cases hw
  · intro w hw
    rcases h2 with h2 | h2
    · rw [h2] at hw; cases hw
    · rw [h2] at hw; injection hw with hw; subst hw; rfl

/-- **The documented recipe end to end** (`unfold_overflow → float_to_fixed → rescale_fixed`; the special operands
are constants by `special_unfold_id`): for every deterministic bounded float context whose bounds are values of
the format, every rounding mode and overflow mode, every shift `k` and every finite non-zero operand, the composed
program — scale the operand by `2^k`, round at digit position `n + k` under
`MPBFixedContext(·, reach · 2^k, rm, ASSERT)`, scale back, compare with the bounds, write the probed overflow
constant — returns the value the source context returns, or raises the same error. -/
theorem chain_id (c : MPBParams) (hk : c.k = some 0) (hp : 1 ≤ c.p)
    (hpos : BoundOk c.p c.nmin c.posMax) (hps : c.posMax.s = false)
    (hneg : BoundOk c.p c.nmin c.negMax) (hns : c.negMax.s = true) (k : Int) (x : RF) (hx : x.c ≠ 0) :
    obsEqV (valOf (mpbRoundAt c (.fin x) none false 0)) (chainFloat c k x) :=
  chain_float c hk hp hpos hps hneg hns k x hx

/-! ## `unfold_overflow` -/

/-- **`unfold_overflow`, float, flags included**: rounding under the bounded context *is* rounding under
`MPSFloatContext(pmax, emin, rm)`, then `t > maxval` / `t < neg_maxval`, then the context's own overflow arm
(which sets `overflow` and `inexact`) — for any rounding mode, overflow mode, stochastic or not. -/
theorem unfold_overflow_arm_float (c : MPBParams)
    (hpos : c.posMax.c = 0 ∨ c.posMax.s = false) (hneg : c.negMax.c = 0 ∨ c.negMax.s = true)
    (x : RF) (hx : x.c ≠ 0) :
    mpbRoundAt c (.fin x) none false 0 =
      (match (unboundedFloat c).roundAtCore (.fin x) none false 0 with
       | .error e => .error e
       | .ok r =>
         match r.v with
         | .fin t => if t.gt c.posMax then mpbOverflow c x.s t.s
                     else if t.lt c.negMax then mpbOverflow c x.s t.s
                     else .ok r
         | _ => .ok r) :=
  mpb_unfold_arm c hpos hneg x hx

/-- the same for a non-wrapping bounded fixed-point format and `MPFixedContext(nmin, rm, …)` -/
theorem unfold_overflow_arm_fixed (c : MPBFixParams) (hw : c.ov ≠ .wrap)
    (hpos : c.posMax.c = 0 ∨ c.posMax.s = false) (hneg : c.negMax.c = 0 ∨ c.negMax.s = true)
    (x : RF) (hx : x.c ≠ 0) :
    mpbfixRoundAt c (.fin x) none false 0 =
      (match (unboundedFixed c).roundAtCore (.fin x) none false 0 with
       | .error e => .error e
       | .ok r =>
         match r.v with
         | .fin t => if t.gt c.posMax then mpbfixOverflow c x.s t.s
                     else if t.lt c.negMax then mpbfixOverflow c x.s t.s
                     else .ok r
         | _ => .ok r) :=
  mpbfix_unfold_arm c hw hpos hneg x hx

/-- **the probe is sound**: what the bounded context returns for `2^k ·` its bound, for every `k ≥ 1` (the rewrite
asks at `k = 1` and `k = 64` and requires the two to agree), is its overflow arm for that sign … -/
theorem overflow_probe_float (c : MPBParams) (hk : c.k = some 0) (k : Nat) (hk1 : 1 ≤ k)
    (hpos : BoundOk c.p c.nmin c.posMax) (hps : c.posMax.s = false)
    (hneg : BoundOk c.p c.nmin c.negMax) (hns : c.negMax.s = true) :
    probeFloat c false k = mpbOverflow c false false ∧ probeFloat c true k = mpbOverflow c true true :=
  ⟨probe_float_pos c hk k hk1 hpos hps, probe_float_neg c hk k hk1 hneg hns⟩

theorem overflow_probe_fixed (c : MPBFixParams) (hk : c.k = some 0) (hw : c.ov ≠ .wrap) (k : Nat) (hk1 : 1 ≤ k)
    (hpos : BoundOkFix c.nmin c.posMax) (hps : c.posMax.s = false)
    (hneg : BoundOkFix c.nmin c.negMax) (hns : c.negMax.s = true) :
    probeFixed c false k = mpbfixOverflow c false false ∧ probeFixed c true k = mpbfixOverflow c true true :=
  ⟨probe_fixed_pos c hk hw k hk1 hpos hps, probe_fixed_neg c hk hw k hk1 hneg hns⟩

/-- … and every overflowing operand of that sign gets exactly that arm (value and flags): the overflow outcome of
a deterministic non-wrapping context is a constant of the sign, so "probe and write the constant" is sound. -/
theorem overflow_is_constant_float (c : MPBParams) (hk : c.k = some 0) (hp : 1 ≤ c.p) (x y : RF) (fl : Flags) (hx : x.c ≠ 0)
    (hr : x.round (some c.p) (some c.nmin) c.rm (some 0) 0 false = .ok (y, fl))
    (hout : (if y.s then y.lt c.negMax else y.gt c.posMax) = true) :
    mpbRoundAt c (.fin x) none false 0 = mpbOverflow c x.s x.s :=
  overflow_const_float c hk hp x y fl hx hr hout

theorem overflow_is_constant_fixed (c : MPBFixParams) (hk : c.k = some 0) (hw : c.ov ≠ .wrap) (x y : RF) (fl : Flags)
    (hx : x.c ≠ 0) (hr : x.round none (some c.nmin) c.rm (some 0) 0 false = .ok (y, fl))
    (hout : (if y.s then y.lt c.negMax else y.gt c.posMax) = true) :
    mpbfixRoundAt c (.fin x) none false 0 = mpbfixOverflow c x.s x.s :=
  overflow_const_fixed c hk hw x y fl hx hr hout

/-- **`unfold_overflow` reproduces a bounded float** (`MPBFloatContext`; the finite part of `EFloatContext` /
`IEEEContext`): every deterministic context whose bounds are values of the format of the right sign, every rounding
mode and overflow mode, every finite non-zero operand: the emitted block — round under the unbounded counterpart,
compare, write the probed constant — returns the value the source returns, or raises the same error. -/
theorem unfold_overflow_id (c : MPBParams) (hk : c.k = some 0) (hp : 1 ≤ c.p)
    (hpos : BoundOk c.p c.nmin c.posMax) (hps : c.posMax.s = false)
    (hneg : BoundOk c.p c.nmin c.negMax) (hns : c.negMax.s = true) (x : RF) (hx : x.c ≠ 0) :
    valOf (mpbRoundAt c (.fin x) none false 0) = unfoldOverflowFloat c x :=
  unfold_overflow_float c hk hp hpos hps hneg hns x hx

/-- **`unfold_overflow` reproduces a bounded fixed-point format that does not wrap** (`MPBFixedContext`,
`FixedContext`, `SMFixedContext`; signed zero on or off, any NaN / infinity options). -/
theorem unfold_overflow_fixed_id (c : MPBFixParams) (hk : c.k = some 0) (hw : c.ov ≠ .wrap)
    (hpos : BoundOkFix c.nmin c.posMax) (hps : c.posMax.s = false)
    (hneg : BoundOkFix c.nmin c.negMax) (hns : c.negMax.s = true) (x : RF) (hx : x.c ≠ 0) :
    valOf (mpbfixRoundAt c (.fin x) none false 0) = unfoldOverflowFixed c x :=
  unfold_overflow_fixed c hk hw hpos hps hneg hns x hx

/-- the sign-magnitude format `SMFixedContext(-4, 3, RTN, WRAP)` (values `k/16`, `|k| ≤ 3`) -/
def smWrap : MPBFixParams :=
  { nmin := -5, posMax := ⟨false, -4, 3⟩, negMax := ⟨true, -4, 3⟩, rm := .rtn, ov := .wrap, k := some 0, negZero := true,
    o := { enableNan := false, enableInf := false } }

/-- **Why a wrapping format must be refused — and why two probes do not decide it.**  For `smWrap` the probes at
`2 · maxval` and `2^64 · maxval` agree (both wrap to `−1/16`; `2 · neg_maxval` and `2^64 · neg_maxval` both to
`+1/16`), which is all `_Prober._overflow` checks, yet the overflowing operand `−7/4` wraps to `0`: the overflow
outcome of a wrapping format is not a constant of the sign.  (F36: before its repair `unfold_overflow` accepted
this context and the emitted program returned `1/16` for `−7/4`; it now refuses every wrapping format.) -/
theorem unfold_overflow_wrap_counterexample :
    probeFixed smWrap false 1 = probeFixed smWrap false 64 ∧ probeFixed smWrap true 1 = probeFixed smWrap true 64 ∧
    valOf (probeFixed smWrap true 1) = .ok (.fin ⟨false, -4, 1⟩) ∧
    valOf (mpbfixRoundAt smWrap (.fin ⟨true, -2, 7⟩) none false 0) = .ok (.fin ⟨false, 0, 0⟩) ∧
    unfoldOverflowFixed smWrap ⟨true, -2, 7⟩ = .ok (.fin ⟨false, -4, 1⟩) := by
  decide +kernel

/-- **`early_check` is sound where the threshold is a binade boundary** (partial).  An operand whose exponent
exceeds the bound's is certain to overflow: its unbounded rounding is past the bound, in every mode.  For a format
whose bound tops its binade (every IEEE format) `2^(e(maxval) + 1)` is exactly `infval`, the threshold the rewrite
emits.  Not covered: a threshold strictly inside the bound's binade (`infval` of a format whose largest code is
taken by NaN, e.g. 480 for a bound of 448) — there soundness needs "rounding never crosses a representable value". -/
theorem early_check_sound_partial (c : MPBParams) (hp : 1 ≤ c.p)
    (hpc : c.posMax.c ≠ 0) (hps : c.posMax.s = false) (hnc : c.negMax.c ≠ 0) (hns : c.negMax.s = true)
    (x : RF) (hx : x.c ≠ 0) (hnm : c.nmin < x.e)
    (hbig : if x.s then c.negMax.e < x.e else c.posMax.e < x.e) :
    ∃ y fl, x.round (some c.p) (some c.nmin) c.rm (some 0) 0 false = .ok (y, fl) ∧
      (if y.s then y.lt c.negMax else y.gt c.posMax) = true :=
  early_check_binade c hp hpc hps hnc hns x hx hnm hbig

/-! ## `unfold_special` -/

/-- **What a context makes of NaN, of an infinity and of a zero is a constant** of the special (and its sign):
it does not depend on the rounding position, on `exact`, on the random draw, nor (for a zero) on the exponent the
zero is written with — so one probe per special, as the rewrite makes, determines the branch value. -/
theorem special_unfold_id (C : Ctx) (hC : C ≠ .real) (s : Bool) (e : Int) (n : Option Int) (ex : Bool) (r : Nat) :
    C.roundAtCore (.nan s) n ex r = C.roundAtCore (.nan s) none false 0 ∧
    C.roundAtCore (.inf s) n ex r = C.roundAtCore (.inf s) none false 0 ∧
    C.roundAtCore (.fin ⟨s, e, 0⟩) n ex r = C.roundAtCore (.fin ⟨s, 0, 0⟩) none false 0 :=
  ⟨special_nan_const C hC s n ex r, special_inf_const C hC s n ex r, special_zero_const C hC s e n ex r⟩

/-- **Shedding a special-value rule from the format is invisible to every finite operand**: the NaN rule always,
the infinity rule exactly under `_shedable`'s condition (no overflow can reach it) — at every position, with or
without `exact`, stochastic or not.  (Non-wrapping `MPBFixedContext`; a wrapping one never reaches the rule.) -/
theorem special_shed_id (C : Ctx) (nan inf : Bool) (hinf : inf = true → reachesInf C = false)
    (hw : ∀ c, C = .mpbfix c → c.ov ≠ .wrap) (x : RF) (n : Option Int) (ex : Bool) (r : Nat) :
    (shedCtx C nan inf).roundAtCore (.fin x) n ex r = C.roundAtCore (.fin x) n ex r :=
  shed_finite C nan inf hinf hw x n ex r

/-- shedding the infinity rule where an overflow reaches it *does* change a finite operand's result — the
condition is needed: `MPBFixedContext(-1, 3, RNE, OVERFLOW, enable_inf=True)` sends `8` to `+inf`, without the
rule it raises -/
theorem special_shed_counterexample :
    let c : MPBFixParams := { nmin := -1, posMax := ⟨false, 0, 3⟩, negMax := ⟨true, 0, 3⟩, rm := .rne, ov := .overflow,
                              k := some 0, negZero := true, o := { enableNan := false, enableInf := true } }
    reachesInf (.mpbfix c) = true ∧
    valOf ((Ctx.mpbfix c).roundAtCore (.fin ⟨false, 0, 8⟩) none false 0) = .ok (.inf false) ∧
    valOf ((shedCtx (.mpbfix c) false true).roundAtCore (.fin ⟨false, 0, 8⟩) none false 0) = .error .valueError := by
  decide +kernel

/-! ## `unfold_neg_zero` -/

/-- **`unfold_neg_zero` reproduces a bounded fixed-point format with a signed zero** under the conditions
`_sign_survives` checks: no wrapping; no consulted substitute is a zero; and (`NegEndOk`, the third route, added by
the F37 repair) the negative bound is not a zero that a negative overflow can land on — it is non-zero, or the
format raises on overflow, or a negative overflow goes to the infinity rule.  For *every* operand, rounding without
the signed zero and then giving a zero result the operand's sign (`fixZero` = `if t == 0: copysign(t, x) else t`)
is the original rounding — same value, flags and errors. -/
theorem neg_zero_unfold_id (c : MPBFixParams) (hk : c.k = some 0) (hnz : c.negZero = true) (hw : c.ov ≠ .wrap)
    (hsub : subsNotZero c.o = true) (hns : c.negMax.c = 0 ∨ c.negMax.s = true) (hend : NegEndOk c)
    (hps : c.posMax.s = false) (v : FV) :
    mpbfixRoundAt c v none false 0 =
      (match mpbfixRoundAt { c with negZero := false } v none false 0 with
       | .error e => .error e
       | .ok r => .ok (fixZero v r)) :=
  neg_zero_unfold c hk hnz hw hsub hns hend hps v

/-- **The third route (F37).**  `MPBFixedContext(-1, 100, RNE, SATURATE, neg_maxval=-0, enable_neg_zero=True)`: a
negative overflow saturates to the end of the range, which for a zero negative bound is `+0`; the emitted program
restores the operand's sign and returns `−0`.  Before the repair `_sign_survives` did not refuse this context
(`q(-5.0) = +0.0`, `unfold_neg_zero(q)(-5.0) = -0.0`); `NegEndOk` is false for it. -/
theorem neg_zero_unfold_counterexample :
    let c : MPBFixParams := { nmin := -1, posMax := ⟨false, 0, 100⟩, negMax := ⟨true, 0, 0⟩, rm := .rne, ov := .saturate,
                              k := some 0, negZero := true, o := { enableNan := false, enableInf := false } }
    subsNotZero c.o = true ∧ c.ov ≠ .wrap ∧ ¬ NegEndOk c ∧
    valOf (mpbfixRoundAt c (.fin ⟨true, 0, 5⟩) none false 0) = .ok (.fin ⟨false, 0, 0⟩) ∧
    valOf (match mpbfixRoundAt { c with negZero := false } (.fin ⟨true, 0, 5⟩) none false 0 with
           | .error e => .error e
           | .ok r => .ok (fixZero (.fin ⟨true, 0, 5⟩) r)) = .ok (.fin ⟨true, 0, 0⟩) := by
  refine ⟨by decide, by decide, ?_, by decide +kernel, by decide +kernel⟩
  intro h
  rcases h with h | h | h
  · exact h rfl
  · cases h
  · cases h.1

/-! ## `elim_round` / `insert_round` -/

/-- **A rounding whose operand the format represents is the identity** (the fact `round_is_identity` must
establish before `elim_round` deletes a rounding or `insert_round` adds one): a non-zero value with at most `p`
digits, all above `nmin`, is returned unchanged and unflagged by the float rounding core, in every mode.  (That the
*inference* `AbstractFormat.__le__` delivers this premise is C14's `le_sound`; it does not when the target has no
least exponent — F10 — nor for `abs` of an asymmetric range.) -/
theorem round_identity_sound (x : RF) (p : Nat) (nmin : Int) (rm : RM) (hc : x.c ≠ 0) (hp : 1 ≤ p)
    (hd : bitLength x.c ≤ p) (hn : nmin < x.exp) :
    ∃ fl, x.round (some p) (some nmin) rm = .ok (x, fl) ∧ fl.inexact = false :=
  round_float_representable x p nmin rm hc hp hd hn

/-- … and a value on the grid of a fixed-point format is returned unchanged by the fixed-point core. -/
theorem round_identity_sound_fixed (x : RF) (n : Int) (rm : RM) (h : x.exp > n) :
    ∃ fl, x.round none (some n) rm = .ok (x, fl) ∧ fl.inexact = false := by
  unfold RF.round RF.roundParams
  simp only [if_true]
  exact roundAtCore_above x n none rm false h

/-- the F10 shape at the level of the rounding: an FP32 value is *not* returned unchanged by an 11-digit rounding
with no least exponent — deleting `round` under `MPFloatContext(11)` changes `1 + 2^-23` into itself instead of `1` -/
theorem round_identity_needs_precision :
    ((⟨false, -23, 8388609⟩ : RF).round (some 11) none .rne).toOption = some (⟨false, -10, 1024⟩, { inexact := true }) := by
  decide +kernel

/-! ## Non-vacuity: concrete contexts meeting the hypotheses, evaluated by the kernel -/

/-- IEEE half as an `MPBFloatContext`: `p = 11`, `emin = −14`, bound `65504 = 2047 · 2^5` -/
def half : MPBParams :=
  { p := 11, emin := -14, posMax := ⟨false, 5, 2047⟩, negMax := ⟨true, 5, 2047⟩, rm := .rne, ov := .overflow, k := some 0, o := {} }

example : half.k = some 0 ∧ 1 ≤ half.p ∧ BoundOk half.p half.nmin half.posMax ∧ half.posMax.s = false ∧
    half.negMax = half.posMax.neg ∧ half.posMax.e ≤ 15 ∧ half.emin ≤ 15 ∧ policyOf half = some .infinite := by
  refine ⟨rfl, by decide, ⟨by decide, by decide, by decide⟩, rfl, rfl, by decide, by decide, by decide +kernel⟩

/-- 65519.99… rounds to 65504, the tie 65520 overflows, a subnormal tie rounds to even: source and lowered agree -/
example : valOf (mpbRoundAt half (.fin ⟨false, 0, 65520⟩) none false 0) = .ok (.inf false) ∧
    valOf (f2fBounded half .infinite true 15 ⟨false, 0, 65520⟩) = .ok (.inf false) ∧
    valOf (f2fBounded half .infinite true 15 ⟨false, -4, 1048319⟩) = .ok (.fin ⟨false, 5, 2047⟩) ∧
    valOf (f2fBounded half .infinite true 15 ⟨false, -25, 3⟩) = .ok (.fin ⟨false, -24, 2⟩) ∧
    valOf (mpbRoundAt half (.fin ⟨false, -25, 3⟩) none false 0) = .ok (.fin ⟨false, -24, 2⟩) ∧
    valOf (f2fBounded half .infinite true 15 ⟨true, 200, 1⟩) = .ok (.inf true) := by
  decide +kernel

/-- the whole recipe on FP16 (shift `k = 11`): the tie 65520 overflows, 65519.9… rounds to 65504, a subnormal tie
rounds to even -/
example : chainFloat half 11 ⟨false, 0, 65520⟩ = .ok (.inf false) ∧
    obsEqV (chainFloat half 7 ⟨false, -4, 1048319⟩) (.ok (.fin ⟨false, 5, 2047⟩)) ∧
    obsEqV (chainFloat half 25 ⟨false, -25, 3⟩) (.ok (.fin ⟨false, -24, 2⟩)) := by
  decide +kernel

/-- the emitted positions for FP16: `logb = 0 ↦ −11` (`exp − 1` with `exp = −10`), subnormal `↦ −25`, clamped `↦ 4` -/
example : f2fPos 11 (some (-14, -24)) (some 5) 0 = -11 ∧ f2fPos 11 (some (-14, -24)) (some 5) (-20) = -25 ∧
    f2fPos 11 (some (-14, -24)) (some 5) 40 = 4 := by decide

/-- `FixedContext(True, -4, 8, RTZ, SATURATE)` -/
def q44 : MPBFixParams :=
  { nmin := -5, posMax := ⟨false, -4, 127⟩, negMax := ⟨true, -4, 128⟩, rm := .rtz, ov := .saturate, k := some 0, negZero := false,
    o := { enableNan := false, enableInf := false } }

example : q44.k = some 0 ∧ q44.ov ≠ .wrap ∧ BoundOkFix q44.nmin q44.posMax ∧ BoundOkFix q44.nmin q44.negMax ∧
    (∀ w, q44.o.nanValue = some w → w.isNar = true) := by
  refine ⟨rfl, by decide, ⟨by decide, by decide⟩, ⟨by decide, by decide⟩, ?_⟩
  intro w h; cases h

example : valOf (mpbfixRoundAt q44 (.fin ⟨true, 0, 1000⟩) none false 0) = .ok (.fin ⟨true, -4, 128⟩) ∧
    unfoldOverflowFixed q44 ⟨true, 0, 1000⟩ = .ok (.fin ⟨true, -4, 128⟩) ∧
    valOf (rescaleProg q44 4 (.fin ⟨false, -6, 13⟩)) = .ok (.fin ⟨false, -4, 3⟩) ∧
    valOf (mpbfixRoundAt q44 (.fin ⟨false, -6, 13⟩) none false 0) = .ok (.fin ⟨false, -4, 3⟩) := by
  decide +kernel

end Fpy.Props.C10
