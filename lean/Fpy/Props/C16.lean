/-
C16 — Encodings and ordinals are order-preserving bijections.
Property theorems only.  Model: `Fpy/Model/Enc.lean` (the format classes of
`fpy2/number/context/*.py`, function by function); Spec: `Fpy/Spec/Layout.lean` (published layouts as
first-principles decoders; `sameValue` / `ltValue` / `same` compare `(s, exp, c)` triples as real
numbers on a common scale); helper lemmas: `Fpy/Proof/Enc.lean`, `EncOrd.lean`, `EncEF.lean`, `EncEF2.lean`, `EncEF3.lean`, `EncExp.lean`.

All statements are for ALL valid format parameters (unbounded widths, scales, exponent offsets).
-/
import Fpy.Proof.EncExp
namespace Fpy.Props.C16
open Fpy Fpy.Enc Fpy.Spec

/-! ## The code's comparison is the order of the real numbers (used to read the bounds tests) -/

theorem compare_is_value_order (x y : RF) :
    x.compare y = compare (units x (min x.exp y.exp)) (units y (min x.exp y.exp)) :=
  compare_units x y

/-! ## Two's complement (`FixedFormat`) -/

/-- decoding gives the value the two's-complement layout assigns to the pattern -/
theorem fixed_decode_layout (f : FX) (hv : f.valid = true) (b : Nat) (hb : b < 2 ^ f.nbits) :
    f.decode b = .ok (twosLayout f.signed f.scale f.nbits b) :=
  fx_decode_layout f hv b hb

/-- every pattern is the encoding of what it decodes to -/
theorem fixed_encode_decode (f : FX) (hv : f.valid = true) (b : Nat) (hb : b < 2 ^ f.nbits) :
    ∃ v, f.decode b = .ok v ∧ f.encode v = .ok b :=
  fx_encode_decode f hv b hb

/-- encoding any representable value (any `(exp, c)` spelling of it) gives a pattern in range that
decodes back to the same value with the same sign, in the canonical spelling `exp = scale` -/
theorem fixed_decode_encode (f : FX) (hv : f.valid = true) (x : RF) (hr : f.mpb.repr (.fin x) = true) :
    ∃ b y, f.encode (.fin x) = .ok b ∧ b < 2 ^ f.nbits ∧ f.decode b = .ok (.fin y) ∧ same x y ∧ y.exp = f.scale :=
  fx_decode_encode f hv x hr

/-- `encode` never returns a pattern outside `[0, 2^nbits)` -/
theorem fixed_encode_lt (f : FX) (v : FV) (b : Nat) (h : f.encode v = .ok b) : b < 2 ^ f.nbits := by
  unfold FX.encode at h
  by_cases hr : f.mpb.repr v = true
  · simp only [hr, Bool.not_true, Bool.false_eq_true, if_false] at h
    cases v with
    | fin x =>
      simp only at h
      generalize (if x.c = 0 then 0 else _ : Nat) = c at h
      by_cases hgt : c > bitmask f.nbits
      · simp [hgt] at h
      · simp only [hgt, if_false] at h
        injection h with h; subst h
        have := two_pow_pos' f.nbits
        unfold bitmask at hgt; omega
    | inf s => cases h
    | nan s => cases h
  · simp [hr] at h

/-- patterns outside the range are refused -/
theorem fixed_decode_range (f : FX) (b : Nat) (hb : 2 ^ f.nbits ≤ b) : f.decode b = .error .valueError := by
  unfold FX.decode; simp [hb]

/-! ## Sign-magnitude (`SMFixedFormat`) -/

theorem smfixed_decode_layout (f : SM) (hv : f.valid = true) (b : Nat) (hb : b < 2 ^ f.nbits) :
    f.decode b = .ok (smLayout f.scale f.nbits b) :=
  sm_decode_layout f hv b hb

theorem smfixed_encode_decode (f : SM) (hv : f.valid = true) (b : Nat) (hb : b < 2 ^ f.nbits) :
    ∃ v, f.decode b = .ok v ∧ f.encode v = .ok b :=
  sm_encode_decode f hv b hb

/-- sign of zero included: `-0` and `+0` encode to different patterns and come back with their sign -/
theorem smfixed_decode_encode (f : SM) (hv : f.valid = true) (x : RF) (hr : f.mpb.repr (.fin x) = true) :
    ∃ b y, f.encode (.fin x) = .ok b ∧ b < 2 ^ f.nbits ∧ f.decode b = .ok (.fin y) ∧ same x y ∧ y.exp = f.scale :=
  sm_decode_encode f hv x hr

/-! ## Fixed-point ordinals (`MPFixedFormat`, inherited by `MPBFixed`/`Fixed`/`SMFixed`) -/

/-- the ordinal of a representable value is that value counted in units of the spacing -/
theorem fixed_ordinal_is_value (f : MPFixFmt) (x : RF) (hr : x.isMoreSignificant f.nmin = true) (m : Int)
    (h1 : m ≤ x.exp) (h2 : m ≤ f.nmin + 1) :
    units x m = f.ordRF x * ((2 ^ (f.nmin + 1 - m).toNat : Nat) : Int) :=
  fix_ordinal_units f x hr m h1 h2

/-- strictly increasing -/
theorem fixed_ordinal_strict_mono (f : MPFixFmt) (x y : RF)
    (hx : x.isMoreSignificant f.nmin = true) (hy : y.isMoreSignificant f.nmin = true) :
    f.ordRF x < f.ordRF y ↔ ltValue x y :=
  fix_ordinal_strict_mono f x y hx hy

/-- the two zeros (and every respelling of a value) share one ordinal, different values do not -/
theorem fixed_ordinal_eq_iff (f : MPFixFmt) (x y : RF)
    (hx : x.isMoreSignificant f.nmin = true) (hy : y.isMoreSignificant f.nmin = true) :
    f.ordRF x = f.ordRF y ↔ sameValue x y :=
  fix_ordinal_eq_iff f x y hx hy

/-- onto every integer -/
theorem fixed_to_from_ordinal (f : MPFixFmt) (k : Int) : f.ordRF (f.unordRF k) = k :=
  fix_to_from_ordinal f k

theorem fixed_from_to_ordinal (f : MPFixFmt) (x : RF) (hr : x.isMoreSignificant f.nmin = true) :
    sameValue (f.unordRF (f.ordRF x)) x :=
  (fix_from_to_ordinal f x hr).1

/-- `next_up` / `next_down` step by exactly one ordinal -/
theorem fixed_next_up_ord (f : MPFixFmt) (x : RF) (hr : f.repr (.fin x) = true) :
    ∃ y z, (Fmt.mpfix f).nextUp (.fin x) false = .ok (.fin y) ∧ f.ordRF y = f.ordRF x + 1 ∧
           (Fmt.mpfix f).nextDown (.fin x) false = .ok (.fin z) ∧ f.ordRF z = f.ordRF x - 1 :=
  ⟨_, _, (fix_next_up f x hr).1, fix_to_from_ordinal f _, (fix_next_up f x hr).2, fix_to_from_ordinal f _⟩

/-! ### `normalize` of the fixed-point family (repaired: F2) -/

/-- normalisation of a representable value returns the same value and sign in the canonical spelling
`exp = expmin` (before the repair `FixedContext(True,0,8).normalize(Float(c=1,exp=2))` was 0) -/
theorem fixed_normalize (f : MPFixFmt) (x : RF) (hr : f.repr (.fin x) = true) :
    ∃ y, f.normalize (.fin x) = .ok (.fin y) ∧ same x y ∧ y.exp = f.expmin :=
  fix_normalize f x hr

/-- the same through the bounded formats (`MPBFixed`; `Fixed` and `SMFixed` via `FX.mpb` / `SM.mpb`) -/
theorem fixed_normalize_bounded (F : MPBFixFmt) (x : RF) (hr : F.repr (.fin x) = true) :
    ∃ y, F.normalize (.fin x) = .ok (.fin y) ∧ same x y ∧ y.exp = F.nmin + 1 :=
  mpbfix_normalize F x hr

/-- the former witness, now correct -/
theorem fixed_normalize_witness :
    (FX.mk true 0 8).mpb.repr (.fin ⟨false, 2, 1⟩) = true ∧
    (FX.mk true 0 8).mpb.normalize (.fin ⟨false, 2, 1⟩) = .ok (.fin ⟨false, 0, 4⟩) := by
  constructor <;> rfl

/-- values that are not representable are refused -/
theorem fixed_normalize_refuses (f : MPFixFmt) (v : FV) (hr : f.repr v = false) :
    f.normalize v = .error .typeError := by
  unfold MPFixFmt.normalize; simp [hr]

/-! ## Float ordinals (`MPSFloatFormat`, inherited by `MPBFloat`/`EFloat`/`IEEE`) -/

/-- the ordinal of a representable value determines its value: `ordValue` turns an ordinal back into
the magnitude in units of `2^expmin` (subnormals are their own ordinal; each further block of
`2^(p-1)` ordinals is one binade) -/
theorem float_ordinal_is_value (f : MPSFmt) (hp : 1 ≤ f.p) (x : RF) (hr : f.reprRF x = true)
    (m : Int) (h1 : m ≤ x.exp) (h2 : m ≤ f.expmin) :
    units x m = sOrdValue (2 ^ (f.p - 1)) (f.ordRF x) * ((2 ^ (f.expmin - m).toNat : Nat) : Int) :=
  mps_ordinal_units f hp x hr m h1 h2

/-- strictly increasing on the representable values -/
theorem ordinal_strict_mono (f : MPSFmt) (hp : 1 ≤ f.p) (x y : RF)
    (hx : f.reprRF x = true) (hy : f.reprRF y = true) :
    f.ordRF x < f.ordRF y ↔ ltValue x y :=
  mps_ordinal_strict_mono f hp x y hx hy

/-- the two zeros counted once; injective otherwise -/
theorem ordinal_eq_iff (f : MPSFmt) (hp : 1 ≤ f.p) (x y : RF)
    (hx : f.reprRF x = true) (hy : f.reprRF y = true) :
    f.ordRF x = f.ordRF y ↔ sameValue x y :=
  mps_ordinal_eq_iff f hp x y hx hy

/-- onto every integer, through representable values -/
theorem to_from_ordinal (f : MPSFmt) (hp : 1 ≤ f.p) (k : Int) :
    f.reprRF (f.unordRF k) = true ∧ f.ordRF (f.unordRF k) = k :=
  ⟨mps_unord_repr f hp k, mps_to_from_ordinal f hp k⟩

theorem from_to_ordinal (f : MPSFmt) (hp : 1 ≤ f.p) (x : RF) (hr : f.reprRF x = true) :
    sameValue (f.unordRF (f.ordRF x)) x :=
  mps_from_to_ordinal f hp x hr

/-- `next_up` / `next_down` step by exactly one ordinal -/
theorem next_up_ord (f : MPSFmt) (hp : 1 ≤ f.p) (x : RF) (hr : f.reprRF x = true) :
    ∃ y z, (Fmt.mps f).nextUp (.fin x) false = .ok (.fin y) ∧ f.ordRF y = f.ordRF x + 1 ∧
           (Fmt.mps f).nextDown (.fin x) false = .ok (.fin z) ∧ f.ordRF z = f.ordRF x - 1 :=
  ⟨_, _, (mps_next f x hr).1, mps_to_from_ordinal f hp _, (mps_next f x hr).2, mps_to_from_ordinal f hp _⟩

/-! ## Extended floats (`EFloatFormat`, `IEEEFormat`) -/

/-- decoding gives the value the published layout assigns to the pattern: every valid `es`, `nbits`,
NaN kind, infinity flag and exponent offset -/
theorem decode_layout (f : EF) (hv : f.valid = true) (b : Nat) (hb : b < 2 ^ f.nbits) :
    f.decode b = .ok (efLayout f.es f.nbits f.inf f.kind f.eoff b) :=
  ef_decode_layout f hv b hb

/-- …which, said by magnitude code `G = b mod 2^(nbits-1)`: codes `0..efGmax` are the finite numbers
`from_ordinal(±G)`, `efGmax + 1` is ±∞ when infinities are on, the rest NaN, and NEG_ZERO's `1|0…0` is NaN -/
theorem decode_by_code (f : EF) (hv : f.valid = true) (b : Nat) (hb : b < 2 ^ f.nbits) :
    f.decode b =
      .ok (if f.kind = .negZero ∧ b % 2 ^ (f.nbits - 1) = 0 ∧ b / 2 ^ (f.nbits - 1) = 1 then .nan (decide (b / 2 ^ (f.nbits - 1) = 1))
       else if b % 2 ^ (f.nbits - 1) ≤ efGmax f then .fin (efNumber f (decide (b / 2 ^ (f.nbits - 1) = 1)) (b % 2 ^ (f.nbits - 1)))
       else if f.inf = true ∧ b % 2 ^ (f.nbits - 1) = efGmax f + 1 then .inf (decide (b / 2 ^ (f.nbits - 1) = 1))
       else .nan (decide (b / 2 ^ (f.nbits - 1) = 1))) :=
  ef_decode_class f hv b hb

/-- the largest finite value `_ext_to_mpb_fmt` computes (via `_binade_max` and `next_towards_zero`) is
the value of the largest finite code of the layout, for every valid format -/
theorem maxval_is_largest_code (f : EF) (hv : f.valid = true) :
    f.maxv = (if efGmax f = 0 then ⟨false, f.emin, 0⟩ else f.mpb.mps.unordRF (efGmax f : Int)) :=
  ef_maxv_canon f hv

/-- `maxval` is decoded from a pattern and bounds every finite decoded value on both sides -/
theorem maxval_is_max (f : EF) (hv : f.valid = true) :
    (∃ y, f.decode (efGmax f) = .ok (.fin y) ∧ sameValue y f.maxv) ∧
    (∀ b x, b < 2 ^ f.nbits → f.decode b = .ok (.fin x) →
      ¬ ltValue f.maxv x ∧ ¬ ltValue x ⟨true, f.maxv.exp, f.maxv.c⟩) :=
  ef_maxval_is_max f hv

/-- the ordinal of a decoded finite value is its signed magnitude code: the ordinal map is a strictly
increasing bijection between the finite decoded values (±0 ↦ 0) and the contiguous range
`[-efGmax, efGmax]` (with `ordinal_strict_mono`, `to_from_ordinal`) -/
theorem decoded_ordinal (f : EF) (hv : f.valid = true) (b : Nat) (hb : b < 2 ^ f.nbits) (x : RF)
    (hd : f.decode b = .ok (.fin x)) :
    f.mpb.mps.reprRF x = true ∧
    f.mpb.mps.ordRF x = (if b / 2 ^ (f.nbits - 1) = 1 then -((b % 2 ^ (f.nbits - 1) : Nat) : Int) else ((b % 2 ^ (f.nbits - 1) : Nat) : Int)) ∧
    b % 2 ^ (f.nbits - 1) ≤ efGmax f :=
  ef_decode_ord f hv b hb x hd

/-- `encode` stays in `[0, 2^nbits)` for everything it accepts -/
theorem encode_lt (f : EF) (hv : f.valid = true) (v : FV) (b : Nat) (h : f.encode v = .ok b) : b < 2 ^ f.nbits :=
  ef_encode_lt f hv v b h

/-! ### every decoded value is representable (repaired: F15) -/

/-- every pattern decodes to a value the format calls representable — finite, ±∞ and NaN alike,
down to the 1- and 2-bit formats that have no non-zero finite value -/
theorem decode_repr (f : EF) (hv : f.valid = true) (b : Nat) (hb : b < 2 ^ f.nbits) :
    ∃ v, f.decode b = .ok v ∧ f.repr v = true :=
  ef_decode_repr f hv b hb

/-- `has_nonzero()` is exact: it holds iff the layout has a non-zero finite code -/
theorem has_nonzero_exact (f : EF) (hv : f.valid = true) : f.hasNonzero = decide (1 ≤ efGmax f) :=
  ef_hasNonzero f hv

/-- representability of the special values is what the format parameters say -/
theorem repr_specials (f : EF) (s : Bool) :
    f.repr (.inf s) = f.inf ∧ f.repr (.nan s) = !(f.kind == .none) :=
  ⟨ef_repr_inf f s, ef_repr_nan f s⟩

/-! ### encode ∘ decode (repaired: F15, F16) -/

/-- every pattern is the encoding of what it decodes to, up to NaN payloads: finite and ±∞ patterns
exactly; a NaN pattern encodes to a NaN pattern -/
theorem encode_decode (f : EF) (hv : f.valid = true) (b : Nat) (hb : b < 2 ^ f.nbits) :
    ∃ v, f.decode b = .ok v ∧
      (v.isNan = false → f.encode v = .ok b) ∧
      (v.isNan = true → ∃ b' t, f.encode v = .ok b' ∧ b' < 2 ^ f.nbits ∧ f.decode b' = .ok (.nan t)) :=
  ef_encode_decode f hv b hb

/-- the former F16 witness: `EFloatFormat(2, 3, True, MAX_VAL, 0)`, pattern 2 = +∞ -/
theorem encode_decode_witness :
    (EF.mk 2 3 true .maxVal 0).decode 2 = .ok (.inf false) ∧
    (EF.mk 2 3 true .maxVal 0).encode (.inf false) = .ok 2 := by
  constructor <;> rfl

/-! ### decode ∘ encode (repaired: F16, F23) -/

/-- for every representable value — any `(exp, c)` spelling of a finite number, ±0, ±∞, NaN of either
sign — `encode` gives a pattern in range whose decoding is the same value with the same sign
(NaN ↦ NaN, payload and sign of NaN not observed) -/
theorem decode_encode (f : EF) (hv : f.valid = true) (v : FV) (hr : f.repr v = true) :
    ∃ b w, f.encode v = .ok b ∧ b < 2 ^ f.nbits ∧ f.decode b = .ok w ∧ sameFV v w :=
  ef_decode_encode f hv v hr

/-- the former F23 witness: a NaN with clear sign bit in a NEG_ZERO format takes the code `1|0…0` -/
theorem decode_encode_witness :
    (EF.mk 2 4 false .negZero 0).repr (.nan false) = true ∧
    (EF.mk 2 4 false .negZero 0).encode (.nan false) = .ok 8 ∧
    (EF.mk 2 4 false .negZero 0).decode 8 = .ok (.nan true) := by
  refine ⟨by decide, by rfl, by rfl⟩

/-! ### normalisation of the float family -/

/-- `normalize` of a representable non-zero value: same value and sign, canonical spelling
(`exp = expmin` with at most `pmax` digits, or exactly `pmax` digits above it); zeros go to `exp = expmin` -/
theorem normalize_val (f : EF) (hv : f.valid = true) (x : RF) (hc : x.c ≠ 0) (hr : f.repr (.fin x) = true) :
    ∃ y, f.normalize (.fin x) = .ok (.fin y) ∧ same x y ∧
      ((y.exp = f.expmin ∧ y.p ≤ f.pmax) ∨ (y.exp > f.expmin ∧ y.p = f.pmax)) :=
  ef_normalize f hv x hc hr

theorem normalize_zero (f : EF) (x : RF) (hc : x.c = 0) (hr : f.repr (.fin x) = true) :
    f.normalize (.fin x) = .ok (.fin ⟨x.s, f.expmin, 0⟩) :=
  ef_normalize_zero f x hc hr

/-- the same for the unbounded `MPSFloatFormat` -/
theorem mps_normalize_val (f : MPSFmt) (hp : 1 ≤ f.p) (x : RF) (hc : x.c ≠ 0) (hr : f.reprRF x = true) :
    ∃ y, f.normalize (.fin x) = .ok (.fin y) ∧ same x y ∧
      ((y.exp = f.expmin ∧ y.p ≤ f.p) ∨ (y.exp > f.expmin ∧ y.p = f.p)) :=
  mps_normalize f hp x hc hr

/-! ## Powers of two (`ExpFormat`) -/

theorem exp_decode_layout (f : ExpFmt) (b : Nat) (hb : b < 2 ^ f.nbits) :
    f.decode b = .ok (expLayout f.nbits f.eoff b) :=
  Fpy.exp_decode_layout f b hb

theorem exp_encode_decode (f : ExpFmt) (hv : f.valid = true) (b : Nat) (hb : b < 2 ^ f.nbits) :
    ∃ v, f.decode b = .ok v ∧ f.encode v = .ok b :=
  Fpy.exp_encode_decode f hv b hb

theorem exp_decode_encode (f : ExpFmt) (hv : f.valid = true) (v : FV) (hr : f.repr v = true) :
    ∃ b w, f.encode v = .ok b ∧ b < 2 ^ f.nbits ∧ f.decode b = .ok w ∧ sameFV v w :=
  Fpy.exp_decode_encode f hv v hr

/-! ## Non-vacuity -/
example : (FX.mk true (-2) 4).valid = true ∧ (FX.mk true (-2) 4).mpb.repr (.fin ⟨true, -1, 3⟩) = true := by
  constructor <;> rfl
example : (SM.mk 3 5).valid = true ∧ (SM.mk 3 5).mpb.repr (.fin ⟨true, 3, 0⟩) = true := by constructor <;> rfl
example : (EF.mk 2 3 true .maxVal 0).valid = true ∧ (EF.mk 5 16 true .ieee 0).valid = true := by constructor <;> rfl
example : (MPSFmt.mk 3 (-2) true true).reprRF ⟨true, -5, 12⟩ = true ∧ (MPSFmt.mk 3 (-2) true true).ordRF ⟨true, -5, 12⟩ = -6 := by
  decide

example : (EF.mk 4 8 false .negZero 2).valid = true ∧ (EF.mk 4 8 false .negZero 2).repr (.fin ⟨true, -3, 5⟩) = true ∧
    (EF.mk 0 2 false .maxVal 0).valid = true ∧ (EF.mk 0 2 false .maxVal 0).repr (.nan false) = true := by
  decide
example : (EF.mk 5 16 true .ieee 0).hasNonzero = true ∧ efGmax (EF.mk 5 16 true .ieee 0) = 31743 := by decide

example : (ExpFmt.mk 3 (-1)).valid = true ∧ (ExpFmt.mk 3 (-1)).repr (.fin ⟨false, -3, 4⟩) = true := by decide

end Fpy.Props.C16
