import Fpy.Model.Lang.Core
namespace Fpy.Props.C08
theorem placeholder : True := trivial
end Fpy.Props.C08
