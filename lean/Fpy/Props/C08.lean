/-
C08 — Loop and iterator restructuring preserves results.

What is proved here (model level, `Fpy.Lang` evaluator of Model/Lang/Core.lean; the real
transformations' outputs are run on that evaluator by harness/c08.py):

* `while_unroll_sound` (FULL): for every unroll count `k`, condition, body, statements before and
  after, environment, heap and context, the `k`-times unrolled loop — the nest
  `if c: b; if c: b; … while c: b` that `fpy2/transform/while_unroll.py` emits — and the loop have the
  same outcome: same returned value and heap (early `return` in the body included), same final
  environment and heap, same error, or both diverge.  `Returns`/`Normal` forms follow.
* the equivalence is a CONGRUENCE (`stmt_equiv_congruence`): the unrolled loop may sit anywhere —
  inside `if`, `with`, other `while`/`for` bodies — and the enclosing function returns the same.
* fuel: `Returns` is "there is a fuel with which the evaluator returns"; by `fuel_mono` more fuel
  never changes a definite outcome, so `Returns` is deterministic (`returns_deterministic`).

* `heap_parametricity` (FULL): evaluation commutes with renaming of heap references, garbage cells on the
  left and extra cells on the right — the tool for every rewrite whose output allocates differently.
* `for_unroll_peel_sound`, `for_unroll_strict_sound`, `for_unroll_static_sound` (FULL for the blocks
  `for_unroll.py` emits today, every factor `k ≥ 1`, every list length, any target pattern, any body):
  same outcome up to heap renaming (`FinRel`); `for_unroll_returns` reads it off for numbers/Booleans.
  The control arithmetic under `fp.INTEGER` enters through the interface `IntArith` (integer `+`, `-`,
  `fmod` are exact there) and, for the STRICT `assert`, `IntEq`.
NOT proved here (see the `_partial` entries at the end): unrolling of NESTED loops (generated names of the
inner unroll are refreshed per copy), loop splitting, zip/enumerate elimination, any/all fusion.
-/
import Fpy.Proof.LangIdx9
import Fpy.Model.Lib
namespace Fpy.Props.C08
open Fpy Fpy.Lang Fpy.Xform

/-- more fuel never changes a definite result (one of ten: `evalE_fuel_mono … evalB_fuel_mono`) -/
theorem fuel_mono {Φ : Funs} {f f' : Nat} (hf : f ≤ f') {σ : Env} {μ : Heap} {C : Ctx} {ss : List Stmt}
    {r : M (Outcome × Heap)} (h : evalB Φ f σ μ C ss = r) (hr : r ≠ .error .outOfFuel) :
    evalB Φ f' σ μ C ss = r := evalB_fuel_mono hf h hr

theorem returns_deterministic {Φ : Funs} {σ : Env} {μ : Heap} {C : Ctx} {ss : List Stmt} {v w : Val} {μ' μ'' : Heap}
    (h1 : Returns Φ σ μ C ss v μ') (h2 : Returns Φ σ μ C ss w μ'') : v = w ∧ μ' = μ'' := h1.det h2

/-- `while` unrolling, every `k`, both directions, any early `return` -/
theorem while_unroll_sound (Φ : Funs) (c : Expr) (b pre rest : List Stmt) (k : Nat) (σ : Env) (μ : Heap) (C : Ctx) :
    (∀ v μ', Returns Φ σ μ C (pre ++ unrollWhile c b k :: rest) v μ' ↔ Returns Φ σ μ C (pre ++ .while c b :: rest) v μ') ∧
    (∀ σ' μ', Normal Φ σ μ C (pre ++ unrollWhile c b k :: rest) σ' μ' ↔ Normal Φ σ μ C (pre ++ .while c b :: rest) σ' μ') ∧
    (∀ e, Fails Φ σ μ C (pre ++ unrollWhile c b k :: rest) e ↔ Fails Φ σ μ C (pre ++ .while c b :: rest) e) ∧
    (Diverges Φ σ μ C (pre ++ unrollWhile c b k :: rest) ↔ Diverges Φ σ μ C (pre ++ .while c b :: rest)) :=
  have h := Fpy.Xform.while_unroll_sound Φ c b pre rest k
  ⟨fun _ _ => h.returns, fun _ _ => h.normal, fun _ => h.fails, h.diverges⟩

/-- the shape: one unroll step is `if c: (b; <previous>)`, zero steps is the loop itself -/
theorem unroll_shape (c : Expr) (b : List Stmt) (k : Nat) :
    unrollWhile c b 0 = .while c b ∧ unrollWhile c b (k + 1) = .if1 c (b ++ [unrollWhile c b k]) := ⟨rfl, rfl⟩

/-- the rewritten loop may be nested at any depth: statement equivalence is preserved by every block former -/
theorem stmt_equiv_congruence (Φ : Funs) {s s' : Stmt} (h : SEquiv Φ s s') (pre rest : List Stmt) (c : Expr)
    (p : Pat) (it ce : Expr) (nm : Option String) (other : List Stmt) :
    BEquiv Φ (pre ++ s :: rest) (pre ++ s' :: rest) ∧
    SEquiv Φ (.if1 c (pre ++ s :: rest)) (.if1 c (pre ++ s' :: rest)) ∧
    SEquiv Φ (.ifte c (pre ++ s :: rest) other) (.ifte c (pre ++ s' :: rest) other) ∧
    SEquiv Φ (.ifte c other (pre ++ s :: rest)) (.ifte c other (pre ++ s' :: rest)) ∧
    SEquiv Φ (.while c (pre ++ s :: rest)) (.while c (pre ++ s' :: rest)) ∧
    SEquiv Φ (.for p it (pre ++ s :: rest)) (.for p it (pre ++ s' :: rest)) ∧
    SEquiv Φ (.with ce nm (pre ++ s :: rest)) (.with ce nm (pre ++ s' :: rest)) :=
  have hb : BEquiv Φ (pre ++ s :: rest) (pre ++ s' :: rest) :=
    BEquiv.append (BEquiv.refl Φ pre) (BEquiv.cons h (BEquiv.refl Φ rest))
  ⟨hb, SEquiv.if1 c hb, SEquiv.ifte c hb (BEquiv.refl Φ other), SEquiv.ifte c (BEquiv.refl Φ other) hb,
    SEquiv.while c hb, SEquiv.for p it hb, SEquiv.with ce nm hb⟩

theorem unrolled_loop_anywhere (Φ : Funs) (c : Expr) (b : List Stmt) (k : Nat) :
    SEquiv Φ (unrollWhile c b k) (.while c b) := unrollWhile_sequiv Φ c b k

/-- at the entry point: `f(*args)` versus `unroll_while(f, k)(*args)` for a loop at the top level of the body
(use `stmt_equiv_congruence` for a nested one) -/
theorem while_unroll_entry {Φ : Funs} {f f' : String} {fd fd' : FuncDef} (hf : Φ.find? f = some fd) (hf' : Φ.find? f' = some fd')
    (hp : fd.params = fd'.params) (hc : fd.ctx = fd'.ctx) {c : Expr} {b pre rest : List Stmt} {k : Nat}
    (hbody : fd.body = pre ++ .while c b :: rest) (hbody' : fd'.body = pre ++ unrollWhile c b k :: rest)
    (args : List Val) (μ : Heap) (ctx : Option Ctx) (v : Val) (μ' : Heap) :
    (∃ n, callEntry Φ n f args μ ctx = .ok (v, μ')) ↔ (∃ n, callEntry Φ n f' args μ ctx = .ok (v, μ')) :=
  entry_equiv hf hf' hp hc (by rw [hbody, hbody']; exact (Fpy.Xform.while_unroll_sound Φ c b pre rest k).symm) args μ ctx v μ'

/-! ### non-vacuity: concrete programs, evaluated -/

def one : Expr := .num (.fv (.fin ⟨false, 0, 1⟩))
def three : Expr := .num (.fv (.fin ⟨false, 0, 3⟩))
def two : Expr := .num (.fv (.fin ⟨false, 0, 2⟩))
/-- `x = x + 1` -/
def incr : Stmt := .assign (.var "x") (.op .add [.var "x", one])
/-- `x = 0; while x < 3: x = x + 1; return x` -/
def prog (loop : Stmt) : List Stmt :=
  [.assign (.var "x") (.num (.fv (.fin ⟨false, 0, 0⟩))), loop, .ret (.var "x")]
/-- `while True: (if x >= 2: return x); x = x + 1` : leaves through an early return -/
def earlyBody : List Stmt := [.if1 (.cmp [.ge] [.var "x", two]) [.ret (.var "x")], incr]

def retNum : M (Outcome × Heap) → Option NV
  | .ok (.ret (.num a), _) => some a
  | _ => none

example : retNum (evalB ⟨[]⟩ 40 [] [] fp64 (prog (.while (.cmp [.lt] [.var "x", three]) [incr])))
    = some (.fv (.fin ⟨false, 0, 3⟩)) := by decide
example : retNum (evalB ⟨[]⟩ 40 [] [] fp64 (prog (unrollWhile (.cmp [.lt] [.var "x", three]) [incr] 2)))
    = some (.fv (.fin ⟨false, 0, 3⟩)) := by decide
example : retNum (evalB ⟨[]⟩ 40 [] [] fp64 (prog (.while (.bool true) earlyBody)))
    = some (.fv (.fin ⟨false, 0, 2⟩)) := by decide
example : retNum (evalB ⟨[]⟩ 40 [] [] fp64 (prog (unrollWhile (.bool true) earlyBody 5)))
    = some (.fv (.fin ⟨false, 0, 2⟩)) := by decide
/-- and the instance of the theorem for this program -/
example (v : Val) (μ' : Heap) :
    Returns ⟨[]⟩ [] [] fp64 (prog (unrollWhile (.bool true) earlyBody 5)) v μ' ↔
      Returns ⟨[]⟩ [] [] fp64 (prog (.while (.bool true) earlyBody)) v μ' :=
  ((while_unroll_sound ⟨[]⟩ (.bool true) earlyBody [.assign (.var "x") (.num (.fv (.fin ⟨false, 0, 0⟩)))]
    [.ret (.var "x")] 5 [] [] fp64).1 v μ')

/-! ### `for` unrolling -/

/-- HEAP-LOCATION PARAMETRICITY (fuel-free form): the same block run in states related by a renaming `π` of
heap references (`D`: left cells that are garbage; the right heap may have extra cells) ends in related
states: same error, or related outcome, related heaps, both heaps only grew keeping every cell's length,
and the extra right cells are untouched. -/
theorem heap_parametricity {Φ : Funs} {π : RMap} {D : List Nat} {d : Nat} {σ1 σ2 : Env} {μ1 μ2 : Heap}
    (hd : d ≤ μ1.length) (henv : ER π D d σ1 σ2) (hh : HR π D μ1 μ2) (C : Ctx) (ss : List Stmt) :
    RelM (QS π D μ1 μ2) (evalBω Φ σ1 μ1 C ss) (evalBω Φ σ2 μ2 C ss) := par_evalBω hd henv hh C ss

/-- … and at every fuel, for every evaluator function -/
theorem heap_parametricity_fuel (Φ : Funs) (π : RMap) (D : List Nat) (n : Nat) : ParAt Φ π D n := parAt Φ π D n

/-- PEEL strategy, length not statically known: `t = it; with INTEGER: (n = len(t); m = n - fmod(n, k));
for i in range(0, m, k): (with INTEGER: i₁ = i + 1 …; p = t[i]; body; p = t[i₁]; body; …);
for i' in range(m, n, 1): (p = t[i']; body)`. -/
theorem for_unroll_peel_sound {Φ : Funs} {CI : Ctx} (IA : IntArith CI) {C : Ctx} {S : List String}
    {p : Pat} {it : Expr} {body rest : List Stmt} {t n m idx ridx : String} {offs : List String} {lits : List NV}
    {z0 zk z1 : NV} {k : Nat}
    (hk : offs.length + 1 = k) (hlits : offs.length = lits.length)
    (hl : ∀ j (h : j < lits.length), nvInt? lits[j] = some ((1 + j : Nat) : Int))
    (hz0 : nvInt? z0 = some 0) (hzk : nvInt? zk = some (k : Int)) (hz1 : nvInt? z1 = some 1)
    (hnd : (t :: n :: m :: ridx :: idx :: offs).Nodup)
    (hfresh : ∀ z ∈ t :: n :: m :: ridx :: idx :: offs, z ∉ S ∧ z ∉ bvP p ++ bvB body)
    (hbody : ∀ z ∈ readsB body, z ∈ S) (hrest : ∀ z ∈ readsB rest, z ∈ S)
    {σ : Env} {μ : Heap} (hwfh : WFH μ) (hwfe : WFE σ μ) :
    FinRel S (evalBω Φ σ μ C (.for p it body :: rest))
      (evalBω Φ σ μ C (forUnrollPeel CI p it body t n m idx ridx offs lits z0 zk z1 ++ rest)) :=
  for_unroll_peel_rel IA hk hlits hl hz0 hzk hz1 hnd hfresh hbody hrest hwfh hwfe

/-- STRICT strategy, length not statically known, when the length is a multiple of `k`; otherwise the emitted
`assert` fails (`strict_prelude_eval`). -/
theorem for_unroll_strict_sound {Φ : Funs} {CI : Ctx} (IA : IntArith CI) (IE : IntEq) {C : Ctx} {S : List String}
    {p : Pat} {it : Expr} {body rest : List Stmt} {t n idx : String} {offs : List String} {lits : List NV}
    {z0 zk : NV} {k : Nat}
    (hk : offs.length + 1 = k) (hlits : offs.length = lits.length)
    (hl : ∀ j (h : j < lits.length), nvInt? lits[j] = some ((1 + j : Nat) : Int))
    (hz0 : nvInt? z0 = some 0) (hzk : nvInt? zk = some (k : Int))
    (hnd : (t :: n :: idx :: offs).Nodup)
    (hfresh : ∀ z ∈ t :: n :: idx :: offs, z ∉ S ∧ z ∉ bvP p ++ bvB body)
    (hbody : ∀ z ∈ readsB body, z ∈ S) (hrest : ∀ z ∈ readsB rest, z ∈ S)
    {σ : Env} {μ : Heap} (hwfh : WFH μ) (hwfe : WFE σ μ)
    (hdiv : ∀ r l μ0, evalEω Φ σ μ C it = .ok (.list r, μ0) → μ0[r]? = some l → l.length % k = 0) :
    FinRel S (evalBω Φ σ μ C (.for p it body :: rest))
      (evalBω Φ σ μ C (forUnrollStrict CI p it body t n idx offs lits z0 zk ++ rest)) :=
  for_unroll_strict_rel IA IE hk hlits hl hz0 hzk hnd hfresh hbody hrest hwfh hwfe hdiv

/-- statically known length `k·q + zps.length` (PEEL: main loop to the literal `k·q` if `q > 0`, the rest peeled
with literal indices; STRICT with a known length is the case `zps = []`) -/
theorem for_unroll_static_sound {Φ : Funs} {CI : Ctx} (IA : IntArith CI) {C : Ctx} {S : List String}
    {p : Pat} {it : Expr} {body rest : List Stmt} {t idx : String} {offs : List String} {lits : List NV}
    {z0 zm zk : NV} {zps : List NV} {k q : Nat} {withMain : Bool}
    (hk : offs.length + 1 = k) (hlits : offs.length = lits.length)
    (hl : ∀ j (h : j < lits.length), nvInt? lits[j] = some ((1 + j : Nat) : Int))
    (hz0 : nvInt? z0 = some 0) (hzk : nvInt? zk = some (k : Int)) (hzm : nvInt? zm = some ((k * q : Nat) : Int))
    (hzps : ∀ j (h : j < zps.length), nvInt? zps[j] = some ((k * q + j : Nat) : Int))
    (hmain : withMain = false → q = 0)
    (hnd : (t :: idx :: offs).Nodup)
    (hfresh : ∀ z ∈ t :: idx :: offs, z ∉ S ∧ z ∉ bvP p ++ bvB body)
    (hbody : ∀ z ∈ readsB body, z ∈ S) (hrest : ∀ z ∈ readsB rest, z ∈ S)
    {σ : Env} {μ : Heap} (hwfh : WFH μ) (hwfe : WFE σ μ)
    (hsize : ∀ v μ0, evalEω Φ σ μ C it = .ok (v, μ0) → ∃ r l, v = .list r ∧ μ0[r]? = some l ∧ l.length = k * q + zps.length) :
    FinRel S (evalBω Φ σ μ C (.for p it body :: rest))
      (evalBω Φ σ μ C (forUnrollStatic CI p it body t idx offs lits z0 zm zk zps withMain ++ rest)) :=
  for_unroll_static_rel IA hk hlits hl hz0 hzk hzm hzps hmain hnd hfresh hbody hrest hwfh hwfe hsize

/-- what `FinRel` says about observable results: the same errors, and the same returned numbers, Booleans and
contexts (for returned lists/tuples: the same up to the renaming of references, with corresponding contents) -/
theorem for_unroll_returns {Φ : Funs} {S : List String} {σ : Env} {μ : Heap} {C : Ctx} {ss ss' : List Stmt}
    (h : FinRel S (evalBω Φ σ μ C ss) (evalBω Φ σ μ C ss')) :
    (∀ v, flatV v = true → ((∃ m, Returns Φ σ μ C ss v m) ↔ (∃ m, Returns Φ σ μ C ss' v m))) ∧
    (∀ e, evalBω Φ σ μ C ss = .error e ↔ evalBω Φ σ μ C ss' = .error e) :=
  ⟨fun _ hv => h.returns_flat_iff hv, fun e => h.fails e⟩

/-! non-vacuity: `s = 0; for x in [1, 2, 3]: s = s + x; return s` unrolled by 2 (PEEL), evaluated -/

def nI (i : Int) : NV := .fv (.fin (RF.ofInt i))
def sumBody : List Stmt := [.assign (.var "s") (.op .add [.var "s", .var "x"])]
def xsE : Expr := .list [.num (nI 1), .num (nI 2), .num (nI 3)]
def origP : List Stmt := [.assign (.var "s") (.num (nI 0)), .for (.var "x") xsE sumBody, .ret (.var "s")]
def emitP : List Stmt := [.assign (.var "s") (.num (nI 0))] ++
  forUnrollPeel Fpy.Lib.integerCtx (.var "x") xsE sumBody "t" "n" "m" "i" "i2" ["i1"] [nI 1] (nI 0) (nI 2) (nI 1) ++
  [.ret (.var "s")]

example : retNum (evalB ⟨[]⟩ 60 [] [] fp64 origP) = some (nI 6) := by decide
example : retNum (evalB ⟨[]⟩ 60 [] [] fp64 emitP) = some (nI 6) := by decide
/-- the side conditions are satisfiable: fresh distinct names, literals with the right integer readings -/
example : ("t" :: "n" :: "m" :: "i2" :: "i" :: ["i1"]).Nodup := by decide
example : ∀ z ∈ "t" :: "n" :: "m" :: "i2" :: "i" :: ["i1"], z ∉ ["s", "x"] ∧ z ∉ bvP (.var "x") ++ bvB sumBody := by decide
example : ∀ z ∈ readsB sumBody, z ∈ ["s", "x"] := by decide
example : nvInt? (nI 2) = some 2 := by decide
/-- and the interface `IntArith` holds of `fp.INTEGER` on samples -/
example : (opEval Fpy.Lib.integerCtx .add [cvtReal (nI 7), cvtReal (nI 5)]).toOption.map nvInt? = some (some 12) := by decide
example : (opEval Fpy.Lib.integerCtx .fmod [cvtReal (.q 3 1), cvtReal (nI 2)]).toOption.map nvInt? = some (some 1) := by decide
example : (opEval Fpy.Lib.integerCtx .sub [cvtReal (.q 3 1), cvtReal (nI 1)]).toOption.map nvInt? = some (some 2) := by decide

/-! ### open parts (each is exercised by the differential runs of harness/c08.py)

* `IntArith fp.INTEGER`, `IntEq` — the two number-layer interfaces are hypotheses of the unrolling theorems,
  checked on samples above; a proof belongs to the rounding development (C02/C05: `MPFixedContext(-1, RTZ)`
  is exact on integers).
* `for_unroll_nested_partial` — MISSING: unrolling an outer loop whose body contains an already unrolled inner
  loop refreshes the inner loop's generated names per copy (`RenameTarget`); needs the simulation checker
  composed with parametricity.
* `split_loop_sound_partial`, `zip_elim_sound_partial`, `enumerate_elim_sound_partial`, `fuse_any_all_sound_partial`
  — MISSING.  The tools are here (`heap_parametricity` with garbage on the left, `forstmt_cont` for an emitted
  `for i in range(a, b, k)`); missing are the nested-`range` loop of `split_loop.py` (the renaming changes at
  every outer iteration), and for the iterator eliminations a "body writes no list ⇒ old cells unchanged"
  invariant relating the snapshot `zip`/`enumerate` take to the live lists the indexed loop reads. -/
theorem for_unroll_nested_partial (Φ : Funs) (σ : Env) (μ : Heap) (C : Ctx) (r i : Nat) (p : Pat) (body : List Stmt) :
    forLoopω Φ σ μ C r i p body =
      (do let l ← heapGet μ r
          match l[i]? with
          | none => .ok (.normal σ, μ)
          | some x => do
            let σ' ← bindPatω p x σ
            let (o, μ') ← evalBω Φ σ' μ C body
            match o with
            | .ret v => .ok (.ret v, μ')
            | .normal σ'' => forLoopω Φ σ'' μ' C r (i + 1) p body) :=
  forLoopω_eq Φ σ μ C r i p body

end Fpy.Props.C08
