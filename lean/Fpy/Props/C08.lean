/-
C08 — Loop and iterator restructuring preserves results.

What is proved here (model level, `Fpy.Lang` evaluator of Model/Lang/Core.lean; the real
transformations' outputs are run on that evaluator by harness/c08.py):

* `while_unroll_sound` (FULL): for every unroll count `k`, condition, body, statements before and
  after, environment, heap and context, the `k`-times unrolled loop — the nest
  `if c: b; if c: b; … while c: b` that `fpy2/transform/while_unroll.py` emits — and the loop have the
  same outcome: same returned value and heap (early `return` in the body included), same final
  environment and heap, same error, or both diverge.  `Returns`/`Normal` forms follow.
* the equivalence is a CONGRUENCE (`stmt_equiv_congruence`): the unrolled loop may sit anywhere —
  inside `if`, `with`, other `while`/`for` bodies — and the enclosing function returns the same.
* fuel: `Returns` is "there is a fuel with which the evaluator returns"; by `fuel_mono` more fuel
  never changes a definite outcome, so `Returns` is deterministic (`returns_deterministic`).

NOT proved here (see the `_partial` entries at the end): `for` unrolling with index arithmetic,
loop splitting, zip/enumerate elimination, any/all fusion — covered by differential runs only.
-/
import Fpy.Proof.LangEntry
namespace Fpy.Props.C08
open Fpy Fpy.Lang Fpy.Xform

/-- more fuel never changes a definite result (one of ten: `evalE_fuel_mono … evalB_fuel_mono`) -/
theorem fuel_mono {Φ : Funs} {f f' : Nat} (hf : f ≤ f') {σ : Env} {μ : Heap} {C : Ctx} {ss : List Stmt}
    {r : M (Outcome × Heap)} (h : evalB Φ f σ μ C ss = r) (hr : r ≠ .error .outOfFuel) :
    evalB Φ f' σ μ C ss = r := evalB_fuel_mono hf h hr

theorem returns_deterministic {Φ : Funs} {σ : Env} {μ : Heap} {C : Ctx} {ss : List Stmt} {v w : Val} {μ' μ'' : Heap}
    (h1 : Returns Φ σ μ C ss v μ') (h2 : Returns Φ σ μ C ss w μ'') : v = w ∧ μ' = μ'' := h1.det h2

/-- `while` unrolling, every `k`, both directions, any early `return` -/
theorem while_unroll_sound (Φ : Funs) (c : Expr) (b pre rest : List Stmt) (k : Nat) (σ : Env) (μ : Heap) (C : Ctx) :
    (∀ v μ', Returns Φ σ μ C (pre ++ unrollWhile c b k :: rest) v μ' ↔ Returns Φ σ μ C (pre ++ .while c b :: rest) v μ') ∧
    (∀ σ' μ', Normal Φ σ μ C (pre ++ unrollWhile c b k :: rest) σ' μ' ↔ Normal Φ σ μ C (pre ++ .while c b :: rest) σ' μ') ∧
    (∀ e, Fails Φ σ μ C (pre ++ unrollWhile c b k :: rest) e ↔ Fails Φ σ μ C (pre ++ .while c b :: rest) e) ∧
    (Diverges Φ σ μ C (pre ++ unrollWhile c b k :: rest) ↔ Diverges Φ σ μ C (pre ++ .while c b :: rest)) :=
  have h := Fpy.Xform.while_unroll_sound Φ c b pre rest k
  ⟨fun _ _ => h.returns, fun _ _ => h.normal, fun _ => h.fails, h.diverges⟩

/-- the shape: one unroll step is `if c: (b; <previous>)`, zero steps is the loop itself -/
theorem unroll_shape (c : Expr) (b : List Stmt) (k : Nat) :
    unrollWhile c b 0 = .while c b ∧ unrollWhile c b (k + 1) = .if1 c (b ++ [unrollWhile c b k]) := ⟨rfl, rfl⟩

/-- the rewritten loop may be nested at any depth: statement equivalence is preserved by every block former -/
theorem stmt_equiv_congruence (Φ : Funs) {s s' : Stmt} (h : SEquiv Φ s s') (pre rest : List Stmt) (c : Expr)
    (p : Pat) (it ce : Expr) (nm : Option String) (other : List Stmt) :
    BEquiv Φ (pre ++ s :: rest) (pre ++ s' :: rest) ∧
    SEquiv Φ (.if1 c (pre ++ s :: rest)) (.if1 c (pre ++ s' :: rest)) ∧
    SEquiv Φ (.ifte c (pre ++ s :: rest) other) (.ifte c (pre ++ s' :: rest) other) ∧
    SEquiv Φ (.ifte c other (pre ++ s :: rest)) (.ifte c other (pre ++ s' :: rest)) ∧
    SEquiv Φ (.while c (pre ++ s :: rest)) (.while c (pre ++ s' :: rest)) ∧
    SEquiv Φ (.for p it (pre ++ s :: rest)) (.for p it (pre ++ s' :: rest)) ∧
    SEquiv Φ (.with ce nm (pre ++ s :: rest)) (.with ce nm (pre ++ s' :: rest)) :=
  have hb : BEquiv Φ (pre ++ s :: rest) (pre ++ s' :: rest) :=
    BEquiv.append (BEquiv.refl Φ pre) (BEquiv.cons h (BEquiv.refl Φ rest))
  ⟨hb, SEquiv.if1 c hb, SEquiv.ifte c hb (BEquiv.refl Φ other), SEquiv.ifte c (BEquiv.refl Φ other) hb,
    SEquiv.while c hb, SEquiv.for p it hb, SEquiv.with ce nm hb⟩

theorem unrolled_loop_anywhere (Φ : Funs) (c : Expr) (b : List Stmt) (k : Nat) :
    SEquiv Φ (unrollWhile c b k) (.while c b) := unrollWhile_sequiv Φ c b k

/-- at the entry point: `f(*args)` versus `unroll_while(f, k)(*args)` for a loop at the top level of the body
(use `stmt_equiv_congruence` for a nested one) -/
theorem while_unroll_entry {Φ : Funs} {f f' : String} {fd fd' : FuncDef} (hf : Φ.find? f = some fd) (hf' : Φ.find? f' = some fd')
    (hp : fd.params = fd'.params) (hc : fd.ctx = fd'.ctx) {c : Expr} {b pre rest : List Stmt} {k : Nat}
    (hbody : fd.body = pre ++ .while c b :: rest) (hbody' : fd'.body = pre ++ unrollWhile c b k :: rest)
    (args : List Val) (μ : Heap) (ctx : Option Ctx) (v : Val) (μ' : Heap) :
    (∃ n, callEntry Φ n f args μ ctx = .ok (v, μ')) ↔ (∃ n, callEntry Φ n f' args μ ctx = .ok (v, μ')) :=
  entry_equiv hf hf' hp hc (by rw [hbody, hbody']; exact (Fpy.Xform.while_unroll_sound Φ c b pre rest k).symm) args μ ctx v μ'

/-! ### non-vacuity: concrete programs, evaluated -/

def one : Expr := .num (.fv (.fin ⟨false, 0, 1⟩))
def three : Expr := .num (.fv (.fin ⟨false, 0, 3⟩))
def two : Expr := .num (.fv (.fin ⟨false, 0, 2⟩))
/-- `x = x + 1` -/
def incr : Stmt := .assign (.var "x") (.op .add [.var "x", one])
/-- `x = 0; while x < 3: x = x + 1; return x` -/
def prog (loop : Stmt) : List Stmt :=
  [.assign (.var "x") (.num (.fv (.fin ⟨false, 0, 0⟩))), loop, .ret (.var "x")]
/-- `while True: (if x >= 2: return x); x = x + 1` : leaves through an early return -/
def earlyBody : List Stmt := [.if1 (.cmp [.ge] [.var "x", two]) [.ret (.var "x")], incr]

def retNum : M (Outcome × Heap) → Option NV
  | .ok (.ret (.num a), _) => some a
  | _ => none

example : retNum (evalB ⟨[]⟩ 40 [] [] fp64 (prog (.while (.cmp [.lt] [.var "x", three]) [incr])))
    = some (.fv (.fin ⟨false, 0, 3⟩)) := by decide
example : retNum (evalB ⟨[]⟩ 40 [] [] fp64 (prog (unrollWhile (.cmp [.lt] [.var "x", three]) [incr] 2)))
    = some (.fv (.fin ⟨false, 0, 3⟩)) := by decide
example : retNum (evalB ⟨[]⟩ 40 [] [] fp64 (prog (.while (.bool true) earlyBody)))
    = some (.fv (.fin ⟨false, 0, 2⟩)) := by decide
example : retNum (evalB ⟨[]⟩ 40 [] [] fp64 (prog (unrollWhile (.bool true) earlyBody 5)))
    = some (.fv (.fin ⟨false, 0, 2⟩)) := by decide
/-- and the instance of the theorem for this program -/
example (v : Val) (μ' : Heap) :
    Returns ⟨[]⟩ [] [] fp64 (prog (unrollWhile (.bool true) earlyBody 5)) v μ' ↔
      Returns ⟨[]⟩ [] [] fp64 (prog (.while (.bool true) earlyBody)) v μ' :=
  ((while_unroll_sound ⟨[]⟩ (.bool true) earlyBody [.assign (.var "x") (.num (.fv (.fin ⟨false, 0, 0⟩)))]
    [.ret (.var "x")] 5 [] [] fp64).1 v μ')

/-! ### open parts (kept visible; each is exercised by the differential runs of harness/c08.py)

* `for_unroll_sound_partial` — MISSING: the index-loop schema of `for_unroll.py` (materialise the
  iterable, `range(len // k)` main loop with `k` indexed reads, peeled remainder / divisibility
  assertion).  Needs a lemma relating `forLoop` over the materialised list to indexed reads under the
  integer context; not attempted.
* `split_loop_sound_partial`, `zip_elim_sound_partial`, `enumerate_elim_sound_partial`,
  `fuse_any_all_sound_partial` — MISSING likewise.  For these the model evaluator allocates fresh heap
  cells (`range`, `zip`, `enumerate`, comprehensions), so source and target heaps differ by unreachable
  cells: the statement needs heap equivalence up to garbage, which this development does not define. -/
theorem for_unroll_sound_partial (Φ : Funs) (σ : Env) (μ : Heap) (C : Ctx) (r i : Nat) (p : Pat) (body : List Stmt) :
    forLoopω Φ σ μ C r i p body =
      (do let l ← heapGet μ r
          match l[i]? with
          | none => .ok (.normal σ, μ)
          | some x => do
            let σ' ← bindPatω p x σ
            let (o, μ') ← evalBω Φ σ' μ C body
            match o with
            | .ret v => .ok (.ret v, μ')
            | .normal σ'' => forLoopω Φ σ'' μ' C r (i + 1) p body) :=
  -- PROVED PART: the fuel-free semantics of one `for` iteration (read element `i` of the LIVE list,
  -- bind, run the body, continue at `i + 1`), from which `k`-fold peeling at the semantic level is `k`
  -- rewrites.  MISSING: the source-level schema (temporaries, `range`, index arithmetic under INTEGER).
  forLoopω_eq Φ σ μ C r i p body

end Fpy.Props.C08
