/-
C04 — Programs evaluate by the documented context-scoped semantics.

The evaluator `Fpy.Lang.evalE/evalS/evalB` IS the independent evaluator the property asks
for (written from `docs/source/dev/semantics.rst` and `derived-semantics.rst`); the claim
"the implementation agrees with it" is the correspondence check (harness/c04.py).
The theorems below pin the documented rules as equations of the evaluator, so that an edit
of the model that silently changes a rule (context scoping, callee context, unrounded
literals and arguments, short-circuiting, sharing) breaks a proof obligation.
-/
import Fpy.Model.Lang.Core
namespace Fpy.Props.C04
open Fpy Fpy.Lang

/-- E-Val: a numeric literal evaluates to itself under ANY context: it is not rounded. -/
theorem literal_unrounded (Φ : Funs) (fuel : Nat) (σ : Env) (μ : Heap) (C : Ctx) (v : NV) :
    evalE Φ (fuel + 1) σ μ C (.num v) = .ok (.num v, μ) := by
  simp only [evalE] <;> rfl

/-- E-Var: a variable evaluates to its binding; an unbound name is the `unbound` error. -/
theorem var_lookup (Φ : Funs) (fuel : Nat) (σ : Env) (μ : Heap) (C : Ctx) (x : String) :
    evalE Φ (fuel + 1) σ μ C (.var x) =
      match σ.get? x with | some v => .ok (v, μ) | none => .error .unbound := by
  simp only [evalE] <;> rfl

/-- E-Add (every rounded operator): operands are evaluated left to right under the active
context and the exact result is rounded ONCE by `opEval` under that same context. -/
theorem rounded_op_uses_active_context (Φ : Funs) (fuel : Nat) (σ : Env) (μ : Heap) (C : Ctx) (o : Op) (args : List Expr) :
    evalE Φ (fuel + 1) σ μ C (.op o args) =
      (do let (vs, μ') ← evalEs Φ fuel σ μ C args
          let ns ← vs.mapM asNum
          let r ← opEval C o (ns.map cvtReal)
          pure (.num r, μ')) := by
  simp only [evalE] <;> rfl

/-- E-Context: the constructor expression is evaluated under the REAL context; the body runs
under the new context (bound to the `as` name if there is one). -/
theorem with_rule (Φ : Funs) (fuel : Nat) (σ : Env) (μ : Heap) (C : Ctx) (ce : Expr) (nm : Option String) (body : List Stmt) :
    evalS Φ (fuel + 1) σ μ C (.with ce nm body) =
      (do let (cv, μ') ← evalE Φ fuel σ μ .real ce
          match cv with
          | .ctx C' =>
            evalB Φ fuel (match nm with | some x => σ.set x (.ctx C') | none => σ) μ' C' body
          | _ => .error .typeError) := by
  simp only [evalS] <;> rfl

/-- … and the previous context is back in force afterwards, whatever the body did: the
statements after a `with` run under the context that was active before it, a `return`
inside the block leaves the function, an error propagates — there is no way for the
inner context to leak. -/
theorem with_scoped (Φ : Funs) (fuel : Nat) (σ : Env) (μ : Heap) (C : Ctx) (ce : Expr) (nm : Option String)
    (body rest : List Stmt) :
    evalB Φ (fuel + 1) σ μ C (.with ce nm body :: rest) =
      (match evalS Φ fuel σ μ C (.with ce nm body) with
       | .error e => .error e
       | .ok (.ret v, μ') => .ok (.ret v, μ')
       | .ok (.normal σ', μ') => evalB Φ fuel σ' μ' C rest) := by
  simp only [evalB]
  cases evalS Φ fuel σ μ C (.with ce nm body) with
  | error e => rfl
  | ok r => obtain ⟨o, μ'⟩ := r; cases o <;> rfl

/-- E-Seq-Return / E-Seq-Normal for every statement. -/
theorem seq_rule (Φ : Funs) (fuel : Nat) (σ : Env) (μ : Heap) (C : Ctx) (s : Stmt) (rest : List Stmt) :
    evalB Φ (fuel + 1) σ μ C (s :: rest) =
      (match evalS Φ fuel σ μ C s with
       | .error e => .error e
       | .ok (.ret v, μ') => .ok (.ret v, μ')
       | .ok (.normal σ', μ') => evalB Φ fuel σ' μ' C rest) := by
  simp only [evalB]
  cases evalS Φ fuel σ μ C s with
  | error e => rfl
  | ok r => obtain ⟨o, μ'⟩ := r; cases o <;> rfl

/-- E-App: arguments are evaluated by the caller and bound UNROUNDED; the callee runs under its own
declared context if it has one and otherwise under the caller's active context; the store is
shared (the callee's writes to a list it was handed are the caller's). -/
theorem call_rule (Φ : Funs) (fuel : Nat) (σ : Env) (μ : Heap) (C : Ctx) (f : String) (args : List Expr) :
    evalE Φ (fuel + 1) σ μ C (.call f args) =
      (do let (vs, μ') ← evalEs Φ fuel σ μ C args
          match Φ.find? f with
          | none => (ctxCtor f vs).map (fun c => (Val.ctx c, μ'))   -- a context constructor with computed arguments, else unbound
          | some fd =>
            if fd.params.length != vs.length then .error .typeError
            else
              match evalB Φ fuel ((fd.params.zip vs).foldl (fun s (x, v) => s.set x v) []) μ'
                      (match fd.ctx with | some c => c | none => C) fd.body with
              | .error e => .error e
              | .ok (.ret v, μ'') => .ok (v, μ'')
              | .ok (.normal _, _) => .error .assertion) := by
  simp only [evalE]
  cases evalEs Φ fuel σ μ C args with
  | error e => rfl
  | ok r =>
    obtain ⟨vs, μ'⟩ := r
    simp only [bind, Except.bind]
    cases Φ.find? f with
    | none => rfl
    | some fd =>
      simp only []
      split
      · rfl
      · cases evalB Φ fuel _ μ' _ fd.body with
        | error e => rfl
        | ok r => obtain ⟨o, μ''⟩ := r; cases o <;> rfl

/-- a call from Python with no `ctx=` runs under IEEE binary64 unless the function declares a context -/
theorem entry_context (Φ : Funs) (fuel : Nat) (f : String) (fd : FuncDef) (args : List Val) (μ : Heap) (ctx : Option Ctx)
    (hf : Φ.find? f = some fd) (hlen : fd.params.length = args.length) :
    callEntry Φ fuel f args μ ctx =
      (match evalB Φ fuel ((fd.params.zip args).foldl (fun s (x, v) => s.set x v) []) μ
              (match fd.ctx with | some c => c | none => (match ctx with | some c => c | none => fp64)) fd.body with
       | .error e => .error e
       | .ok (.ret v, μ') => .ok (v, μ')
       | .ok (.normal _, _) => .error .assertion) := by
  unfold callEntry
  simp only [hf, hlen, bne_self_eq_false, Bool.false_eq_true, if_false]
  cases evalB Φ fuel _ μ _ fd.body with
  | error e => rfl
  | ok r => obtain ⟨o, μ'⟩ := r; cases o <;> rfl

/-- while: the condition is tested before each iteration, a `return` in the body leaves the loop -/
theorem while_rule (Φ : Funs) (fuel : Nat) (σ : Env) (μ : Heap) (C : Ctx) (c : Expr) (body : List Stmt) :
    evalS Φ (fuel + 1) σ μ C (.while c body) =
      (do let (v, μ') ← evalE Φ fuel σ μ C c
          if ← asBool v then
            (do let (o, μ'') ← evalB Φ fuel σ μ' C body
                match o with
                | .ret r => pure (.ret r, μ'')
                | .normal σ' => evalS Φ fuel σ' μ'' C (.while c body))
          else pure (.normal σ, μ')) := by
  simp only [evalS] <;> rfl

/-- `and` short-circuits left to right -/
theorem and_short_circuit (Φ : Funs) (fuel : Nat) (σ : Env) (μ : Heap) (C : Ctx) (e e' : Expr) (es : List Expr) :
    evalAnd Φ (fuel + 1) σ μ C (e :: e' :: es) =
      (do let (v, μ1) ← evalE Φ fuel σ μ C e
          if ← asBool v then evalAnd Φ fuel σ μ1 C (e' :: es) else pure (.bool false, μ1)) := by
  simp only [evalAnd] <;> rfl

/-- assignment copies nothing: binding a list value binds the same heap reference -/
theorem assign_shares (Φ : Funs) (fuel : Nat) (σ : Env) (μ : Heap) (C : Ctx) (x y : String) (r : Nat)
    (h : σ.get? y = some (.list r)) :
    evalS Φ (fuel + 2) σ μ C (.assign (.var x) (.var y)) = .ok (.normal (σ.set x (.list r)), μ) := by
  simp [evalS, evalE, h, bindPat, bind, Except.bind]

/-! non-vacuity: a concrete program whose `with` block rounds to 3 digits while the statement
after it rounds to binary64 — `x + 0.1` twice with different results. -/
def demo : FuncDef :=
  { name := "f", params := ["x"], ctx := none,
    body := [ .with (.ctxLit (.mp 3 .rne (some 0) {})) none [.assign (.var "y") (.op .add [.var "x", .num (.fv (.fin ⟨false, -2, 1⟩))])],
              .assign (.var "z") (.op .add [.var "x", .num (.fv (.fin ⟨false, -2, 1⟩))]),
              .ret (.tuple [.var "y", .var "z"]) ] }

def twoNums : Except Err (Val × Heap) → Option (NV × NV)
  | .ok (.tuple [.num a, .num b], _) => some (a, b)
  | _ => none

example : twoNums (callEntry ⟨[demo]⟩ 50 "f" [.num (.fv (.fin ⟨false, 0, 9⟩))] [] none)
    = some (.fv (.fin ⟨false, 1, 5⟩), .fv (.fin ⟨false, -2, 37⟩)) := by
  decide

end Fpy.Props.C04
