/-
C14 — Format inference bounds every run-time value: the abstract arithmetic part.

Model: `Fpy/Model/AbsFmt.lean` (`AbstractFormat` and its operators as written today).
Spec:  `Fpy/Spec/AbsFmt.lean`: `γ a : FV → Prop`, the set of `Float` values an abstract format
denotes (docstring reading: a non-zero finite value is a member iff it can be written
`±m·2^e` with `m < 2^prec`, `e ≥ exp`, within `[neg_bound, pos_bound]`; `+0` always, `-0`, `±inf`,
`NaN` per flag), `WF a`: the convention the code states (`pos_bound ≥ 0 ≥ neg_bound`, unbounded
sides `+inf`/`-inf`, `prec > 0`).  Exact operations on values are `FV.add/mul/neg/abs`
(`Float.__add__` …, IEEE rules for zeros, infinities, NaN).

Each operator: the full-strength statement if it holds for the faithful model; otherwise a
`…_counterexample` (concrete formats and members, proved) and the `…_partial` theorem with the
excluded region as a hypothesis.

State of the code modelled: after the repairs of F10 (`<=` tests the precision also when
`other.exp = -inf`), F28 (`abs`: `pos_bound = max(pos_bound, -neg_bound)`) and F31 (a zero bound
times an unbounded one is zero): `le_sound`, `abs_sound` hold at full strength and `mul_sound`
needs no hypothesis on the bounds.  Still open — finding F29: `__neg__` copies `has_neg_zero` and
`__mul__` takes the disjunction, although exactly `-(+0) = -0` and `(-2)·(+0) = -0`; hence
`neg_sound_partial` / `mul_sound_partial` and their counterexamples.  The `legacy_…` theorems
record what was wrong with the operators before the repairs (definitions `leLegacy`, `absLegacy`
in the Spec file).
-/
import Fpy.Proof.AbsFmtMul
import Fpy.Proof.AbsFmtMember
namespace Fpy.Props.C14
open Fpy AbsFmt

/-! ### sum — full strength -/

/-- `x ∈ γ a → y ∈ γ b → x + y ∈ γ (a + b)`, including signed zeros, infinities and NaN. -/
theorem add_sound (a b c : AbsFmt) (ha : a.WF) (hb : b.WF) (h : a.add b = .ok c) (x y : FV)
    (hx : γ a x) (hy : γ b y) : γ c (x.add y) := by
  obtain ⟨prec, _, hc⟩ := add_eq_ok h
  cases x with
  | nan s =>
    have : (FV.nan s).add y = .nan false := by cases y <;> rfl
    rw [this, hc]; simp only [γ] at hx ⊢; simp [hx]
  | inf s =>
    cases y with
    | nan t => rw [hc]; simp only [FV.add, γ] at hy ⊢; simp [hy]
    | fin q => rw [hc]; cases s <;> simp only [FV.add, γ] at hx ⊢ <;> simp [hx]
    | inf t =>
      rw [hc]
      cases s <;> cases t <;> simp only [FV.add, γ] at hx hy ⊢ <;> simp [hx, hy]
  | fin p =>
    cases y with
    | nan t => rw [hc]; simp only [FV.add, γ] at hy ⊢; simp [hy]
    | inf t => rw [hc]; cases t <;> simp only [FV.add, γ] at hy ⊢ <;> simp [hy]
    | fin q => exact add_fin a b c ha hb h p q hx hy

/-! ### difference — full strength -/

/-- `x ∈ γ a → y ∈ γ b → x - y ∈ γ (a - b)` -/
theorem sub_sound (a b c : AbsFmt) (ha : a.WF) (hb : b.WF) (h : a.sub b = .ok c) (x y : FV)
    (hx : γ a x) (hy : γ b y) : γ c (x.sub y) := by
  obtain ⟨prec, _, hc⟩ := sub_eq_ok h
  have hpi : c.posInf = (a.posInf || b.negInf) := by rw [hc]
  have hni : c.negInf = (a.negInf || b.posInf) := by rw [hc]
  have hnan : c.nan = (a.nan || b.nan || (a.posInf && b.posInf) || (a.negInf && b.negInf)) := by rw [hc]
  cases x with
  | nan s =>
    have : (FV.nan s).sub y = .nan false := by cases y <;> rfl
    rw [this]; simp only [γ] at hx ⊢; simp [hnan, hx]
  | inf s =>
    cases y with
    | nan t => simp only [FV.sub, FV.neg, FV.add, γ] at hy ⊢; simp [hnan, hy]
    | fin q => cases s <;> simp only [FV.sub, FV.neg, FV.add, γ] at hx ⊢ <;> simp [hpi, hni, hx]
    | inf t =>
      cases s <;> cases t <;> simp only [FV.sub, FV.neg, FV.add, γ] at hx hy ⊢ <;> simp [hpi, hni, hnan, hx, hy]
  | fin p =>
    cases y with
    | nan t => simp only [FV.sub, FV.neg, FV.add, γ] at hy ⊢; simp [hnan, hy]
    | inf t => cases t <;> simp only [FV.sub, FV.neg, FV.add, γ] at hy ⊢ <;> simp [hpi, hni, hy]
    | fin q => exact sub_fin a b c ha hb h p q hx hy

/-! ### union — full strength -/

/-- `γ a ∪ γ b ⊆ γ (a | b)` -/
theorem union_sound (a b : AbsFmt) (ha : a.WF) (x : FV) (hx : γ a x ∨ γ b x) : γ (a.union b) x := by
  cases x with
  | nan s => simp only [γ, AbsFmt.union] at hx ⊢; rcases hx with h | h <;> simp [h]
  | inf s => cases s <;> simp only [γ, AbsFmt.union] at hx ⊢ <;> rcases hx with h | h <;> simp [h]
  | fin p =>
    rcases hx with h | h
    · exact union_fin_left a b p h
    · exact union_fin_right a b (wf_pos_ne_nan ha) p h

/-! ### negation — false at the sign of zero (F29) -/

/-- negation is sound except that `-(+0) = -0` needs `has_neg_zero`, which `__neg__` merely copies -/
theorem neg_sound_partial (a : AbsFmt) (x : FV) (hx : γ a x)
    (hz : ∀ r, x = .fin r → r.c = 0 → r.s = false → a.negZero = true) : γ a.neg' x.neg := by
  cases x with
  | nan s => exact hx
  | inf s => cases s <;> exact hx
  | fin p => exact neg_fin a p hx (hz p rfl)

/-- the abstract format of `SINT8` (`A(inf, 0, +127, -128)`, no special values) -/
def sint8 : AbsFmt := { prec := none, exp := some 0, pos := .fin ⟨false, 0, 127⟩, neg := .fin ⟨true, 0, 128⟩ }

theorem sint8_wf : sint8.WF := by
  refine ⟨Or.inr ⟨_, rfl, Or.inr rfl⟩, Or.inr ⟨_, rfl, Or.inr rfl⟩, by decide⟩

/-- `+0 ∈ γ SINT8` but `-(+0) = -0 ∉ γ (-SINT8)` -/
theorem neg_sound_counterexample :
    γ sint8 (.fin ⟨false, 0, 0⟩) ∧ ¬ γ sint8.neg' (FV.neg (.fin ⟨false, 0, 0⟩)) := by
  constructor
  · simp [γ, finMem]
  · simp [γ, finMem, FV.neg, RF.neg, AbsFmt.neg', sint8]

/-! ### absolute value — full strength (since the repair of F28) -/

/-- `x ∈ γ a → |x| ∈ γ (abs a)` -/
theorem abs_sound (a : AbsFmt) (x : FV) (hx : γ a x) : γ a.abs' x.abs := by
  cases x with
  | nan s => exact hx
  | inf s =>
    cases s <;> simp only [FV.abs, FV.withSign, γ, AbsFmt.abs'] at hx ⊢ <;> simp [hx]
  | fin p => exact abs_fin a p hx

/-- before F28: `-128 ∈ γ SINT8` but `|-128| = 128 ∉ γ (absLegacy SINT8)` (`= A(inf, 0, +127, 0)`) -/
theorem legacy_abs_counterexample :
    γ sint8 (.fin ⟨true, 0, 128⟩) ∧ ¬ γ sint8.absLegacy (FV.abs (.fin ⟨true, 0, 128⟩)) ∧
      γ sint8.abs' (FV.abs (.fin ⟨true, 0, 128⟩)) := by
  have hmem : γ sint8 (.fin ⟨true, 0, 128⟩) := by
    simp only [γ, finMem]
    refine ⟨⟨⟨true, 0, 128⟩, by decide, rfl, nofun, fun E h => by cases h; decide⟩, by decide, by decide⟩
  refine ⟨hmem, ?_, abs_sound _ _ hmem⟩
  simp only [γ, finMem, FV.abs, FV.withSign, AbsFmt.absLegacy, sint8]
  intro h
  exact absurd h.2.2 (by decide)

/-! ### product — false at the sign of zero only (F29) -/

/-- the product is sound provided a `-0` product is covered by `has_neg_zero` of an operand
(`__mul__` sets `a.has_neg_zero or b.has_neg_zero`).  No hypothesis on the bounds is needed any
more: a zero bound times an unbounded one is zero (F31). -/
theorem mul_sound_partial (a b c : AbsFmt) (ha : a.WF) (hb : b.WF) (h : a.mul b = .ok c)
    (x y : FV) (hx : γ a x) (hy : γ b y)
    (hz : ∀ p q, x = .fin p → y = .fin q → (p.mul q).c = 0 → (p.mul q).s = true → (a.negZero || b.negZero) = true) :
    γ c (x.mul y) := by
  obtain ⟨ps, po, _, _, hc⟩ := mul_eq_ok h
  have hpi : c.posInf = ((a.posInf || a.negInf) || (b.posInf || b.negInf)) := by rw [hc]
  have hni : c.negInf = ((a.posInf || a.negInf) || (b.posInf || b.negInf)) := by rw [hc]
  have hnan : c.nan = (a.nan || b.nan || ((a.posInf || a.negInf) || (b.posInf || b.negInf))) := by rw [hc]
  -- a non-finite result is covered as soon as an operand has an infinity
  have hnar : ∀ v : FV, v.isNar = true → ((a.posInf || a.negInf) || (b.posInf || b.negInf)) = true → γ c v := by
    intro v hv hio
    cases v with
    | fin r => cases hv
    | inf s => cases s <;> simp only [γ] <;> simp [hpi, hni, hio]
    | nan s => simp only [γ]; simp [hnan, hio]
  cases x with
  | nan s =>
    have : (FV.nan s).mul y = .nan false := by cases y <;> rfl
    rw [this]; simp only [γ] at hx ⊢; simp [hnan, hx]
  | inf s =>
    have hio : ((a.posInf || a.negInf) || (b.posInf || b.negInf)) = true := by
      cases s <;> simp only [γ] at hx <;> simp [hx]
    apply hnar _ _ hio
    cases y with
    | nan t => rfl
    | fin q => simp only [FV.mul]; split <;> rfl
    | inf t => simp only [FV.mul]; split <;> rfl
  | fin p =>
    cases y with
    | nan t => simp only [FV.mul, γ] at hy ⊢; simp [hnan, hy]
    | inf t =>
      have hio : ((a.posInf || a.negInf) || (b.posInf || b.negInf)) = true := by
        cases t <;> simp only [γ] at hy <;> simp [hy]
      apply hnar _ _ hio
      simp only [FV.mul]; split <;> rfl
    | fin q => exact mul_fin a b c ha hb h p q hx hy (hz p q rfl rfl)

/-- … in particular at full strength as soon as one operand's number system has a negative zero -/
theorem mul_sound_of_neg_zero (a b c : AbsFmt) (ha : a.WF) (hb : b.WF) (h : a.mul b = .ok c)
    (hnz : (a.negZero || b.negZero) = true) (x y : FV) (hx : γ a x) (hy : γ b y) : γ c (x.mul y) :=
  mul_sound_partial a b c ha hb h x y hx hy (fun _ _ _ _ _ _ => hnz)

/-- `SINT8 * SINT8` is `A(16, 0, +16384, -16256)` without a negative zero, yet `(-2) · (+0) = -0` -/
theorem mul_sound_counterexample_neg_zero :
    ∃ c, sint8.mul sint8 = .ok c ∧ γ sint8 (.fin ⟨true, 0, 2⟩) ∧ γ sint8 (.fin ⟨false, 0, 0⟩) ∧
      ¬ γ c (FV.mul (.fin ⟨true, 0, 2⟩) (.fin ⟨false, 0, 0⟩)) := by
  refine ⟨⟨some 16, some 0, .fin ⟨false, 0, 16384⟩, .fin ⟨true, 0, 16256⟩, false, false, false, false⟩,
    by rfl, ?_, by simp [γ, finMem], ?_⟩
  · simp only [γ, finMem]
    refine ⟨⟨⟨true, 0, 2⟩, by decide, rfl, nofun, fun E h => by cases h; decide⟩, by decide, by decide⟩
  · simp [γ, finMem, FV.mul, RF.mul]

/-- since F31: non-positive integers `≥ -2` times all integers is all integers (the zero bound
times the unbounded one contributes zero, not `nan`), and `(-1) · (-1) = 1` is covered -/
theorem mul_zero_bound_times_unbounded :
    ∃ c, (⟨none, some 0, .fin ⟨false, 0, 0⟩, .fin ⟨true, 0, 2⟩, false, false, false, false⟩ : AbsFmt).mul
        ⟨none, some 0, .inf false, .inf true, false, false, false, false⟩ = .ok c ∧
      c.pos = .inf false ∧ c.neg = .inf true := by
  exact ⟨⟨none, some 0, .inf false, .inf true, false, false, false, false⟩, by rfl, by rfl, by rfl⟩

/-! ### inclusion test — full strength (since the repair of F10) -/

/-- `a <= b = True → γ a ⊆ γ b` -/
theorem le_sound (a b : AbsFmt) (hb : b.WF) (h : a.le b = true) (x : FV) (hx : γ a x) : γ b x := by
  cases x with
  | fin p => exact le_fin a b hb h p hx
  | nan s =>
    have := (le_unfold h).1
    simp only [γ] at hx ⊢
    unfold specialsContainedIn at this
    cases hbn : b.nan <;> simp [hx, hbn] at this ⊢
  | inf s =>
    have := (le_unfold h).1
    unfold specialsContainedIn at this
    cases s <;> simp only [γ] at hx ⊢
    · cases hbn : b.posInf <;> simp [hx, hbn] at this ⊢
    · cases hbn : b.negInf <;> simp [hx, hbn] at this ⊢

/-- F10 before the repair, minimal: `A(2, 0, ±3) <= A(1, -inf, ±inf)` was `True` (that is
`<= MPFloat(1)`'s format), `3 ∈ γ A(2,0,±3)`, but `3` has two significant digits.  Today's
`<=` answers `False`. -/
theorem legacy_le_counterexample :
    let a : AbsFmt := ⟨some 2, some 0, .fin ⟨false, 0, 3⟩, .fin ⟨true, 0, 3⟩, false, false, false, false⟩
    let b : AbsFmt := ⟨some 1, none, .inf false, .inf true, false, false, false, false⟩
    a.leLegacy b = true ∧ a.WF ∧ b.WF ∧ γ a (.fin ⟨false, 0, 3⟩) ∧ ¬ γ b (.fin ⟨false, 0, 3⟩) ∧ a.le b = false := by
  intro a b
  refine ⟨by decide, ⟨Or.inr ⟨_, rfl, Or.inr rfl⟩, Or.inr ⟨_, rfl, Or.inr rfl⟩, by decide⟩,
    ⟨Or.inl rfl, Or.inl rfl, by decide⟩, ?_, ?_, by decide⟩
  · simp only [γ, finMem]
    refine ⟨⟨⟨false, 0, 3⟩, by decide, rfl, fun p h => by cases h; decide, fun E h => by cases h; decide⟩, by decide, by decide⟩
  · simp only [γ, finMem]
    intro h
    have hw := (writable_iff b ⟨false, 0, 3⟩ 0 (by decide) (by decide)).1 h.1
    obtain ⟨m, e, he, hm, hp, _⟩ := hw
    have hm1 := hp 1 rfl
    have hX : (RF.sc ⟨false, 0, 3⟩ 0).natAbs = 3 := by decide
    rw [hX] at hm
    have : m = 0 ∨ m = 1 := by omega
    rcases this with h0 | h1
    · rw [h0] at hm; omega
    · rw [h1, Nat.one_mul] at hm
      cases hk : (e - 0).toNat with
      | zero => rw [hk] at hm; omega
      | succ k => rw [hk, Nat.pow_succ] at hm; omega

/-- F10 as reported: the abstract format of FP32 was `<=` the one of `MPFloat(11)`; it no longer is -/
theorem legacy_le_fp32_mpfloat11 :
    let fp32 : AbsFmt := ⟨some 24, some (-149), .fin ⟨false, 104, 16777215⟩, .fin ⟨true, 104, 16777215⟩, true, true, true, true⟩
    let mp11 : AbsFmt := ofFormat (.mpFloat 11) true true true true
    fp32.leLegacy mp11 = true ∧ fp32.le mp11 = false := by
  decide

/-- outside the region where it skipped the precision test the legacy `<=` was today's -/
theorem legacy_le_agrees (a b : AbsFmt) (h : a.leLegacy b = true)
    (hF10 : b.exp = none → ∀ pb, b.prec = some pb → precGt a.prec (some pb) = false) : a.le b = true :=
  leLegacy_imp_le a b h hF10

/-! ### identity of rounding (`round_is_identity(unrounded, ctx) = unrounded <= from_format(ctx.format())`) -/

/-- the abstract format of `MPFloatContext(p)` is well-formed -/
theorem mpfloat_wf (p : Nat) (hp : 1 ≤ p) (pi ni nn nz : Bool) : (ofFormat (.mpFloat p) pi ni nn nz).WF := by
  refine ⟨Or.inl rfl, Or.inl rfl, ?_⟩
  simp only [ofFormat, AbsFmt.sym]
  intro h; cases h; omega

/-- **A rounding reported to be an identity changes no value** — for the target family
`MPFloatContext(p)` (`exp = -inf`, where F10 bit), finite non-zero members, any rounding mode:
`RealFloat.round(max_p = p)` — which is what `MPFloatContext(p).round` applies to a finite
non-zero operand — returns the same number with `inexact = False`.
Not covered (partial): other target families (their `round` adds range/subnormal handling — C01),
zeros and special values (returned as they are by construction of `floatSpecial`). -/
theorem round_identity_sound_partial (a : AbsFmt) (p : Nat) (hp : 1 ≤ p) (pi ni nn nz : Bool)
    (hle : a.le (ofFormat (.mpFloat p) pi ni nn nz) = true)
    (x : RF) (hc : x.c ≠ 0) (hx : γ a (.fin x)) (rm : RM) :
    ∃ y fl, x.round (some p) none rm = .ok (y, fl) ∧ y.eqV x ∧ y.s = x.s ∧ fl.inexact = false := by
  have hb := le_sound a _ (mpfloat_wf p hp pi ni nn nz) hle (.fin x) hx
  simp only [γ, finMem, hc, if_false] at hb
  apply round_of_writable x p hp hc rm
  obtain ⟨w, h1, h2, h3, h4⟩ := hb.1
  exact ⟨w, h1, h2, fun q hq => by cases hq; exact h3 p rfl, nofun⟩

/-- F10 through `round_is_identity` before the repair: the FP32 abstract format was `<=` the one
of `MPFloat(11)`, `1 + 2^-23` is an FP32 value, and rounding it to 11 digits gives `1` with
`inexact = True`. -/
theorem legacy_round_identity_counterexample :
    let fp32 : AbsFmt := ⟨some 24, some (-149), .fin ⟨false, 104, 16777215⟩, .fin ⟨true, 104, 16777215⟩, true, true, true, true⟩
    let x : RF := ⟨false, -23, 8388609⟩
    fp32.leLegacy (ofFormat (.mpFloat 11) true true true true) = true ∧ γ fp32 (.fin x) ∧
      (x.round (some 11) none .rne).toOption = some (⟨false, -10, 1024⟩, { inexact := true }) ∧
      ¬ RF.eqV ⟨false, -10, 1024⟩ x := by
  intro fp32 x
  refine ⟨by decide, ?_, by decide, by decide⟩
  simp only [γ, finMem]
  refine ⟨⟨x, by decide, rfl, fun p h => by cases h; decide, fun E h => by cases h; decide⟩, by decide, by decide⟩

/-! ### tie of the executable membership used by the harness -/

/-- the driver operation `member` decides exactly γ -/
theorem member_iff_gamma (a : AbsFmt) (v : FV) : a.member v = true ↔ γ a v := member_iff a v

/-! ### note F11: the `with_*` helpers rebuild the format without `has_neg_zero` -/

theorem with_prec_offset_drops_neg_zero :
    let a : AbsFmt := ⟨some 3, some 0, .fin ⟨false, 0, 4⟩, .fin ⟨true, 0, 4⟩, false, false, false, true⟩
    γ a (.fin ⟨true, 0, 0⟩) ∧ ∃ c, a.withPrecOffset 0 = .ok c ∧ ¬ γ c (.fin ⟨true, 0, 0⟩) := by
  intro a
  refine ⟨by simp [γ, finMem, a], ⟨some 3, some 0, .fin ⟨false, 0, 4⟩, .fin ⟨true, 0, 4⟩, false, false, false, false⟩, by rfl, ?_⟩
  simp [γ, finMem]

/-! non-vacuity of the hypotheses -/
example : sint8.WF ∧ sint8.add sint8 = .ok ⟨some 9, some 0, .fin ⟨false, 0, 254⟩, .fin ⟨true, 0, 256⟩, false, false, false, false⟩ :=
  ⟨sint8_wf, by rfl⟩
example : sint8.mul sint8 = .ok ⟨some 16, some 0, .fin ⟨false, 0, 16384⟩, .fin ⟨true, 0, 16256⟩, false, false, false, false⟩ := by rfl
example : (⟨some 2, some 0, .fin ⟨false, 0, 3⟩, .fin ⟨true, 0, 3⟩, false, false, false, false⟩ : AbsFmt).le
    ⟨some 3, some (-1), .fin ⟨false, 0, 7⟩, .fin ⟨true, 0, 7⟩, false, false, false, false⟩ = true := by decide

example : (ofFormat (.mpFloat 11) true true true true).le (ofFormat (.mpFloat 24) true true true true) = true ∧
    precGt (ofFormat (.mpFloat 11) true true true true).prec (some 24) = false := by decide

end Fpy.Props.C14
