/-
C06 — A numeric literal denotes exactly the number written.
Property theorems only; helper lemmas in `Fpy/Proof/Literal.lean` and `Fpy/Proof/LiteralFront.lean`,
the positional value of a spelling in `Fpy/Spec/Literal.lean`, the model of the code in
`Fpy/Model/Literal.lean`.

Vocabulary: a spelling `s : Sci` has a sign, integer digits, optional fraction digits and an
optional exponent; `s.render pre E` is its text, `s.value base b` the number it denotes
(`Σ dᵢ·baseⁱ`, scaled by `b^exponent`).  A float token of Python source `t : PyFloat` has digit
groups that may carry `_` separators; `t.render E` is its text, `t.value` the number it denotes.
Limits of the implementation (hypotheses, not part of the property): `withinB base s` /
`FloatWithin t` — no digit group longer than CPython's `int(str)` limit of 4300 digits, and at most
6 significant digits in the exponent of a float token (repaired front end only).

State of the code: findings F24 (negation of an already negative zero), F25 (`-0` as an integer
argument) and F26 (`0x.8`) are repaired and the theorems below are about the repaired code.
F5 is NOT repaired: a decimal float token still reaches the parser as a Python `float`;
`literal_counterexample` / `literal_exact_partial` describe the current code, and
`literal_exact_repaired` proves that the proposed repair (`parseFloatRepaired`) has the property.
-/
import Fpy.Proof.LiteralFront
namespace Fpy.Props.C06
open Fpy Fpy.Lit Fpy.Spec.Lit

/-! ## The utility parsers compute the positional value -/

/-- **decimal**: every well-formed decimal spelling is accepted with exactly its positional value
(or refused with `ValueError` when a digit group exceeds the `int(str)` limit) -/
theorem decnum_spec (s : Sci) (h : s.WF 10) :
    decnumCore (s.render [] 'e') = if withinB 10 s then .ok (s.value 10 10) else .error .value := by
  rw [decnumCore_render s (wfb_dec h)]
  exact sciEval_eq 10 10 (by decide) true s h (Or.inl rfl)

/-- … and nothing else is accepted: a string with a value is the rendering of a well-formed
spelling, and the value is that spelling's -/
theorem decnum_accepts_only (cs : List Char) (v : Rat) (h : decnumCore cs = .ok v) :
    ∃ s : Sci, s.WF 10 ∧ withinB 10 s = true ∧ cs = s.render [] 'e' ∧ v = s.value 10 10 := by
  unfold decnumCore at h
  cases hm : matchDec cs with
  | none => simp [hm] at h
  | some g =>
    obtain ⟨s, hw, hcs, _⟩ := matchDec_inv cs g hm
    have hwf := wf_of_wfb_dec hw
    have h2 : decnumCore cs = .ok v := by unfold decnumCore; exact h
    rw [hcs, decnum_spec s hwf] at h2
    by_cases hb : withinB 10 s = true
    · simp only [hb, ↓reduceIte, Except.ok.injEq] at h2
      exact ⟨s, hwf, hb, hcs, h2.symm⟩
    · simp [hb] at h2

/-- surrounding blanks are ignored and change nothing -/
theorem decnum_strip (cs : List Char) : decnum cs = decnumCore (strip cs) := rfl

theorem decnum_render (s : Sci) (h : s.WF 10) :
    decnum (s.render [] 'e') = if withinB 10 s then .ok (s.value 10 10) else .error .value :=
  decnum_of_render s h

/-- **hexadecimal float**: every well-formed spelling — the form without an integer part, `0x.8`,
included — is accepted with its positional value (digits in base 16, exponent a power of two) -/
theorem hexnum_spec (s : Sci) (h : s.WF 16) :
    hexnumCore (s.render ['0', 'x'] 'p') = if withinB 16 s then .ok (s.value 16 2) else .error .value := by
  rw [hexnumCore_render s (wfb_hex h)]
  exact sciEval_eq 16 2 (by decide) true s h (Or.inl rfl)

theorem hexnum_accepts_only (cs : List Char) (v : Rat) (h : hexnumCore cs = .ok v) :
    ∃ s : Sci, s.WF 16 ∧ withinB 16 s = true ∧ cs = s.render ['0', 'x'] 'p' ∧ v = s.value 16 2 := by
  unfold hexnumCore at h
  cases hm : matchHex cs with
  | none => simp [hm] at h
  | some g =>
    obtain ⟨s, hw, hcs, _⟩ := matchHex_inv cs g hm
    have hwf := wf_of_wfb_hex hw
    have h2 : hexnumCore cs = .ok v := by unfold hexnumCore; exact h
    rw [hcs, hexnum_spec s hwf] at h2
    by_cases hb : withinB 16 s = true
    · simp only [hb, ↓reduceIte, Except.ok.injEq] at h2
      exact ⟨s, hwf, hb, hcs, h2.symm⟩
    · simp [hb] at h2

theorem hexnum_render (s : Sci) (h : s.WF 16) :
    hexnum (s.render ['0', 'x'] 'p') = if withinB 16 s then .ok (s.value 16 2) else .error .value := by
  unfold hexnum; rw [strip_render 16 ['0', 'x'] (by decide) 'p' s h]; exact hexnum_spec s h

/-- **digits(m, e, b)** is `m · b^e`; the only refusal is `0` to a negative power -/
theorem digits_spec (m e b : Int) :
    digitsToFraction m e b = if b = 0 ∧ e < 0 then .error .zeroDiv else .ok (digitsValue m e b) := by
  unfold digitsToFraction fracPow digitsValue
  by_cases h : b = 0 ∧ e < 0
  · simp [h.1, h.2]; rfl
  · have : (b == 0 && decide (e < 0)) = false := by
      cases hb : (b == 0 && decide (e < 0)) with
      | false => rfl
      | true => exfalso; apply h; simpa using hb
    simp only [this, Bool.false_eq_true, ↓reduceIte, h]; rfl

/-- **rational(p, q)** is `p / q`; the only refusal is `q = 0` -/
theorem rational_spec (p q : Int) :
    rationalToFraction p q = if q = 0 then .error .zeroDiv else .ok (rationalValue p q) := by
  unfold rationalToFraction rationalValue
  by_cases h : q = 0 <;> simp [h]

/-! ## Literals in source denote exactly the number written -/

/-- an **integer token** (decimal digits with optional `_` separators, as Python accepts them) is
that integer, however long -/
theorem integer_spec (g : Group) (hne : g ≠ []) (hg : g.WF)
    (hlz : ¬ (g.digits.head? = some '0' ∧ ∃ c ∈ g.digits, c ≠ '0')) (hlim : g.digits.length ≤ maxStrDigits) :
    frontValue (.num g.render) = .ok (.rat (intVal 10 g.digits)) := by
  unfold frontValue parseExpr
  simp only [pyNumber_decint g hne hg hlz hlim, bind, Except.bind, parseConstant]
  rfl

/-! ### Decimal float tokens: the trip through Python's `float` (finding F5, not repaired)

`Parser._parse_constant` receives the `ast.Constant` Python built, i.e. a binary64 number, and
turns it into `Integer(int(x))` when `x` is integral and into `Decnum(str(x))` otherwise.
So the value of a decimal float token is that of the double nearest to the spelling (when integral)
or of the shortest decimal that reads back as that double — not the spelling's. -/

/-- what the front end makes of a float token, stated outright -/
theorem float_token_path (cs ip fp : List Char) (ex : Option (List Char))
    (h : pyNumber cs = .ok (.float ip fp ex)) :
    parseExpr (.num cs) = .ok (parseFloatLegacy (floatValue ip fp ex)) := by
  unfold parseExpr
  simp only [h, bind, Except.bind, parseConstant]

/-- **Counterexamples** (current code): spellings whose front-end value differs from the number
written (each line: the value obtained; it is not the value of the spelling). -/
theorem literal_counterexample :
    -- 0.1234567890123456789  ↦  0.12345678901234568
    ((frontValue (.num "0.1234567890123456789".toList)).toOption
        = some (.rat (1543209862654321 / 12500000000000000)) ∧
      (⟨.none, ['0'], some "1234567890123456789".toList, none⟩ : Sci).value 10 10
        ≠ 1543209862654321 / 12500000000000000) ∧
    -- 1e23  ↦  99999999999999991611392
    ((frontValue (.num "1e23".toList)).toOption = some (.rat 99999999999999991611392) ∧
      (⟨.none, ['1'], none, some (.none, ['2', '3'])⟩ : Sci).value 10 10 ≠ 99999999999999991611392) ∧
    -- 9007199254740993.0  ↦  9007199254740992
    ((frontValue (.num "9007199254740993.0".toList)).toOption = some (.rat 9007199254740992) ∧
      (⟨.none, "9007199254740993".toList, some ['0'], none⟩ : Sci).value 10 10 ≠ 9007199254740992) ∧
    -- a spelling that *is* a binary64 number is still changed: 0.1000000000000000055511151231257827021181583404541015625 ↦ 0.1
    ((frontValue (.num "0.1000000000000000055511151231257827021181583404541015625".toList)).toOption = some (.rat (1 / 10)) ∧
      (⟨.none, ['0'], some "1000000000000000055511151231257827021181583404541015625".toList, none⟩ : Sci).value 10 10 ≠ 1 / 10) ∧
    -- beyond the binary64 range: 1e999 is an error, 1e-400 is zero, -1e-400 is the negative zero
    ((frontValue (.num "1e999".toList)).toOption = none ∧
      (frontValue (.num "1e-400".toList)).toOption = some (.rat 0) ∧
      (frontValue (.neg (.num "1e-400".toList))).toOption = some .negZero) := by
  decide +kernel

/-- **Partial result** (current code): a float token evaluates exactly in two situations, which
together are all there is —
* the nearest double is integral and equals the spelling's value `r`, or
* the nearest double is not integral and the shortest decimal that reads back as it has value `r`.
What is *not* proved is a syntactic sufficient condition (e.g. "at most 15 significant digits
and inside the normal range"): that needs the error analysis of binary64 rounding and of the
shortest-digits search, which is not formalised here.  The hypotheses are decidable on any
concrete spelling (see the examples below). -/
theorem literal_exact_partial (cs ip fp : List Char) (ex : Option (List Char)) (x : RF) (r : Rat)
    (h : pyNumber cs = .ok (.float ip fp ex)) (hv : floatValue ip fp ex = .fin x)
    (hx : (∃ i : Int, x.toInt? = some i ∧ (i : Rat) = r) ∨
          (x.toInt? = none ∧ (Node.decnum (reprFloat (.fin x))).asReal = .ok (.rat r))) :
    frontValue (.num cs) = .ok (.rat r) := by
  unfold frontValue
  rw [float_token_path cs ip fp ex h, hv]
  cases hx with
  | inl hi =>
    obtain ⟨i, hi, hr⟩ := hi
    simp only [parseFloatLegacy, hi, bind, Except.bind, Node.evalReal, Node.asReal, Node.asRational, Except.map, hr]
  | inr hn =>
    simp only [parseFloatLegacy, hn.1, bind, Except.bind, Node.evalReal, hn.2]

/-- **`literal_exact_repaired`** (the proposed repair of F5, `parseFloatRepaired`: re-read the
token's text): a **decimal float token** — any digit count, with or without a point, an exponent
(`e` or `E`, signed or not), `_` separators, leading and trailing zeros, values far outside the
binary64 range — evaluates under the real context to exactly the positional value of its
spelling.  Nothing depends on how Python's own float parser would have rounded it. -/
theorem literal_exact_repaired (E : Char) (hE : E = 'e' ∨ E = 'E') (t : PyFloat) (h : t.WF) (hl : FloatWithin t) :
    frontValueRepaired (t.render E) = .ok (.rat t.value) :=
  frontValueRepaired_float E hE t h hl

/-! ## Signed zero -/

/-- `as_real()` of a decimal literal node: a negative zero exactly when the spelling has a `-`
sign and the value is zero; otherwise the positional value -/
theorem decnum_as_real (s : Sci) (h : s.WF 10) (hw : withinB 10 s = true) :
    (Node.decnum (s.render [] 'e')).asReal =
      .ok (if s.isNegZero 10 10 then .negZero else .rat (s.value 10 10)) := by
  unfold Node.asReal Node.asRational
  simp only [decnum_render s h, hw, ↓reduceIte, bind, Except.bind, pure, Except.pure,
    lstrip_render_head 10 [] (by simp) 'e' s h, Sci.isNegZero, Bool.and_comm]

theorem hexnum_as_real (s : Sci) (h : s.WF 16) (hw : withinB 16 s = true) :
    (Node.hexnum (s.render ['0', 'x'] 'p')).asReal =
      .ok (if s.isNegZero 16 2 then .negZero else .rat (s.value 16 2)) := by
  unfold Node.asReal Node.asRational
  simp only [hexnum_render s h, hw, ↓reduceIte, bind, Except.bind, pure, Except.pure,
    lstrip_render_head 16 ['0', 'x'] (by decide) 'p' s h, Sci.isNegZero, Bool.and_comm]

/-- the zero of the opposite sign -/
def flipZero : LitVal → LitVal
  | .negZero => .rat 0
  | .rat _ => .negZero

/-- **negated-zero fold**: `-x` for a literal `x` whose value is zero (whatever its form and
whatever its sign) evaluates to the zero of the opposite sign: `-0.0`, `-0` are the negative zero,
`-(-0.0)` is the positive zero again -/
theorem neg_zero_fold (n : Node) (hr : n.isRationalVal = true) (h0 : n.asRational = .ok 0)
    (v : LitVal) (hv : n.asReal = .ok v) :
    ∃ m, negFold n = .ok m ∧ m.evalReal = .ok (flipZero v) := by
  have hnz : (Node.decnum negZeroText).evalReal = .ok .negZero := by
    have : ((Node.decnum negZeroText).evalReal).toOption = some .negZero := by decide +kernel
    cases he : (Node.decnum negZeroText).evalReal with
    | error e => simp [he, Except.toOption] at this
    | ok v => simp [he, Except.toOption] at this; rw [this]
  cases v with
  | negZero =>
    refine ⟨.integer 0, ?_, ?_⟩
    · unfold negFold; simp [hr, h0, hv, bind, Except.bind, pure, Except.pure]
    · simp [Node.evalReal, Node.asReal, Node.asRational, Except.map, flipZero]
  | rat r =>
    refine ⟨.decnum negZeroText, ?_, ?_⟩
    · unfold negFold; simp [hr, h0, hv, bind, Except.bind, pure, Except.pure]
    · simpa [flipZero] using hnz

/-- negating a non-zero literal negates its value exactly (an `Integer` is folded, anything else
becomes a `Neg` operation, which is exact under the real context) -/
theorem neg_fold_value (n : Node) (hr : n.isRationalVal = true) (r : Rat) (h : n.asRational = .ok r)
    (hv : n.asReal = .ok (.rat r)) (hr0 : r ≠ 0) :
    ∃ m, negFold n = .ok m ∧ m.evalReal = .ok (.rat (-r)) := by
  have hb : (r == 0) = false := by simpa using hr0
  cases n with
  | integer v =>
    refine ⟨.integer (-v), ?_, ?_⟩
    · unfold negFold; simp [Node.isRationalVal, h, hb, bind, Except.bind, pure, Except.pure]
    · simp only [Node.asRational, Except.ok.injEq] at h
      simp [Node.evalReal, Node.asReal, Node.asRational, Except.map, ← h, Rat.intCast_neg]
  | neg a => simp [Node.isRationalVal] at hr
  | decnum s =>
    refine ⟨.neg (.decnum s), ?_, ?_⟩
    · unfold negFold; simp [Node.isRationalVal, h, hb, bind, Except.bind, pure, Except.pure]
    · simp [Node.evalReal, hv, bind, Except.bind, pure, Except.pure, hb]
  | hexnum s =>
    refine ⟨.neg (.hexnum s), ?_, ?_⟩
    · unfold negFold; simp [Node.isRationalVal, h, hb, bind, Except.bind, pure, Except.pure]
    · simp [Node.evalReal, hv, bind, Except.bind, pure, Except.pure, hb]
  | rational p q =>
    refine ⟨.neg (.rational p q), ?_, ?_⟩
    · unfold negFold; simp [Node.isRationalVal, h, hb, bind, Except.bind, pure, Except.pure]
    · simp [Node.evalReal, hv, bind, Except.bind, pure, Except.pure, hb]
  | digits m e b =>
    refine ⟨.neg (.digits m e b), ?_, ?_⟩
    · unfold negFold; simp [Node.isRationalVal, h, hb, bind, Except.bind, pure, Except.pure]
    · simp [Node.evalReal, hv, bind, Except.bind, pure, Except.pure, hb]

/-- a zero of either sign is still the integer `0` where an integer argument is wanted
(`rational(-0, 3)`, `digits(5, -0, 2)`) -/
theorem integer_argument_zero :
    asInteger (.integer 0) = .ok 0 ∧ asInteger (.decnum negZeroText) = .ok 0 := by
  constructor
  · rfl
  · have : (asInteger (.decnum negZeroText)).toOption = some 0 := by decide +kernel
    cases he : asInteger (.decnum negZeroText) with
    | error e => simp [he, Except.toOption] at this
    | ok v => simp [he, Except.toOption] at this; rw [this]

/-! ## Rounded once -/

/-- `round(<literal>)` under a context is the context's rounding of the literal's exact value:
nothing is rounded before (the literal is lowered to an exact `Fraction`, or to the exact
negative zero) -/
theorem literal_once (C : Ctx) (n : Node) (v : LitVal) (h : n.asReal = .ok v) :
    roundLit C n = .res (C.round v.operand) := by
  unfold roundLit; simp [h]

theorem literal_once_decimal (C : Ctx) (s : Sci) (h : s.WF 10) (hw : withinB 10 s = true)
    (hz : s.isNegZero 10 10 = false) :
    roundLit C (.decnum (s.render [] 'e')) = .res (C.round (.frac (s.value 10 10).num (s.value 10 10).den)) := by
  rw [literal_once C _ _ (decnum_as_real s h hw)]; simp [hz, LitVal.operand]

/-! ## Non-vacuity: concrete spellings, evaluated by the kernel -/

-- a well-formed spelling, its text and its value
example : (⟨.minus, ['1', '2'], some ['5', '0'], some (.minus, ['0', '3'])⟩ : Sci).render [] 'e' = "-12.50e-03".toList ∧
    (⟨.minus, ['1', '2'], some ['5', '0'], some (.minus, ['0', '3'])⟩ : Sci).value 10 10 = -1 / 80 := by decide +kernel
example : (decnum " -12.50e-03\n".toList).toOption = some (-1 / 80) := by decide +kernel
example : (hexnum "0x1.8p3".toList).toOption = some 12 ∧ (hexnum "-0xa.8p-1".toList).toOption = some (-21 / 4) := by decide +kernel
example : (hexnum "0x.8".toList).toOption = some (1 / 2) ∧ (decnum ".5".toList).toOption = some (1 / 2) := by decide +kernel
example : (digitsToFraction 3 (-2) 10).toOption = some (3 / 100) ∧ (digitsToFraction 1 (-1) 0).toOption = none ∧
    (rationalToFraction 1 (-3)).toOption = some (-1 / 3) := by decide +kernel
-- a float token with separators: `1_0.0_1E0_1`
example : (⟨[(false, '1'), (true, '0')], true, [(false, '0'), (true, '1')], some (.none, [(false, '0'), (true, '1')])⟩ : PyFloat).render 'E'
      = "1_0.0_1E0_1".toList ∧
    (⟨[(false, '1'), (true, '0')], true, [(false, '0'), (true, '1')], some (.none, [(false, '0'), (true, '1')])⟩ : PyFloat).value = 1001 / 10 := by
  decide +kernel
-- the repaired function on the spellings that Python's float changes
example : (frontValueRepaired "0.1234567890123456789".toList).toOption = some (.rat (1234567890123456789 / 10000000000000000000)) ∧
    (frontValueRepaired "1e23".toList).toOption = some (.rat 100000000000000000000000) ∧
    (frontValueRepaired "9007199254740993.0".toList).toOption = some (.rat 9007199254740993) ∧
    (frontValueRepaired "1e-400".toList).toOption = some (.rat (1 / (10 : Rat) ^ 400)) ∧
    (frontValueRepaired "1_0.0_1E0_1".toList).toOption = some (.rat (1001 / 10)) ∧
    (frontValueRepaired "1.".toList).toOption = some (.rat 1) ∧ (frontValueRepaired ".5".toList).toOption = some (.rat (1 / 2)) := by
  decide +kernel
-- the hypotheses of `literal_exact_partial` hold for everyday literals (current code)
example : (frontValue (.num "0.1".toList)).toOption = some (.rat (1 / 10)) ∧
    (frontValue (.num "3.14".toList)).toOption = some (.rat (157 / 50)) ∧
    (frontValue (.num "1e-6".toList)).toOption = some (.rat (1 / 1000000)) ∧
    (frontValue (.num "2.5e-3".toList)).toOption = some (.rat (1 / 400)) ∧
    (frontValue (.num "1e22".toList)).toOption = some (.rat 10000000000000000000000) ∧
    (frontValue (.num "1_0.0_1E0_1".toList)).toOption = some (.rat (1001 / 10)) := by decide +kernel
example : (frontValue (.num "123456789012345678901234567890".toList)).toOption =
    some (.rat 123456789012345678901234567890) := by decide +kernel
-- signed zeros
example : ((Node.decnum "-0.0".toList).asReal).toOption = some .negZero ∧
    ((Node.hexnum "-0x0p0".toList).asReal).toOption = some .negZero ∧
    (frontValue (.neg (.num ['0']))).toOption = some .negZero ∧
    (frontValue (.neg (.num "0.0".toList))).toOption = some .negZero ∧
    (frontValue (.pos (.num "0.0".toList))).toOption = some (.rat 0) ∧
    (frontValue (.neg (.neg (.num "0.0".toList)))).toOption = some (.rat 0) ∧
    (frontValue (.neg (.hexfloat "-0x0".toList))).toOption = some (.rat 0) ∧
    (frontValue (.neg (.neg (.neg (.num ['0']))))).toOption = some .negZero := by decide +kernel
example : (frontValue (.rational (.neg (.num ['0'])) (.num ['3']))).toOption = some (.rat 0) ∧
    (frontValue (.digits (.num ['5']) (.neg (.num ['0'])) (.num ['2']))).toOption = some (.rat 5) := by decide +kernel
-- rounded once
example : (match roundLit (.mp 3 .rne (some 0) {}) (.decnum "0.1".toList) with
    | .res (.ok r) => some r.v | _ => none) = some (.fin ⟨false, -6, 6⟩) := by decide +kernel

end Fpy.Props.C06
