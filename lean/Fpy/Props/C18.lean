/-
C18 — Evaluation is pure, isolated from the caller and reentrant.

Model: `Fpy/Model/Boundary.lean` (the Python boundary over the core-language evaluator `Fpy.Lang`).
`Policy.current` is the code of /repo as it is (captured lists copied at every activation, `from_value`
rebuilds every container: commits 20fad08 and 1c6f5b2, which repaired the findings F7 and F8);
`Policy.legacy` is the code before.  The property theorems are about `Policy.current`, at full strength:

* HEAP LEVEL, a call from Python on the one CPython heap (`callBoundary` = `to_value` on every argument,
  `callEntry`, `from_value`), for ANY caller values (aliased, nested, shared between arguments), ANY
  function table and either policy:
    `args_untouched`  no cell that existed before the call is written;
    `result_fresh`    every cell reachable from the result was allocated by the call.
  Both rest on the frame property of the evaluator, proved for every function table (`evalFrame`,
  `Fpy/Proof/Frame.lean`).
* PROCESS LEVEL, the state machine `call | transform | mutateResult` over the compiled-function cache,
  for EVERY module (whatever it captures):
    `history_independent`  the observation of `call f args ctx` after ANY history is `pureCall` of
        (module, definition, args, ctx); `history_independent_two_histories`, `transformed_copy_same_result`;
    `schedule_independent` / `schedule_independent_fresh`  every interleaving of the atomic steps
        `lookup|compile|insert|run` of N calls gives each call its sequential result;
        `schedule_complete`  a thread that gets the lock four times has finished.
* LEGACY (`Policy.legacy`, regression witnesses): `legacy_history_independent_counterexample` (F7: the same
  call returns 2 then 3), `legacy_result_shared_counterexample` (F8: the caller's store into a returned list
  changes the next call); `legacy_history_independent_partial`: what did hold before the repair.

NOT modelled (that is why the level is `partial`): preemption inside C extensions, gmpy2's thread-local
MPFR context, partial writes before an exception, free variables of callees, a Python caller that rebinds
or mutates a module-level value (capture time = first call).
-/
import Fpy.Proof.BoundaryProc
import Fpy.Proof.Frame
namespace Fpy.C18
open Fpy Fpy.Lang

/-! ## heap level -/

/-- ARGUMENTS UNTOUCHED.  A call from Python never writes a cell that existed before the call: the caller's
lists (whatever their nesting and aliasing, and even when the function assigns into its list parameters)
hold after the call exactly what they held before it. -/
theorem args_untouched (π : Policy) (Φ : Funs) (fuel : Nat) (f : String) (args : List Val) (μ : Heap) (ctx : Option Ctx)
    (v : Val) (μ' : Heap) (h : callBoundary π Φ fuel f args μ ctx = .ok (v, μ')) :
    ∀ r, r < μ.length → μ'[r]? = μ[r]? := by
  intro r hr
  have ht := (callBoundary_frame π Φ fuel f args μ ctx v μ' h).1.2
  have := congrArg (fun l => l[r]?) ht
  simpa [List.getElem?_take_of_lt hr] using this

/-- RESULT FRESH.  Every cell reachable from the returned value was allocated by this call: the result
shares no list with any argument, nor with anything else the caller (or an earlier call) holds. -/
theorem result_fresh (π : Policy) (Φ : Funs) (fuel : Nat) (f : String) (args : List Val) (μ : Heap) (ctx : Option Ctx)
    (v : Val) (μ' : Heap) (h : callBoundary π Φ fuel f args μ ctx = .ok (v, μ')) :
    ∀ s, Reach μ' v s → μ.length ≤ s := by
  intro s hs
  obtain ⟨he, hv⟩ := callBoundary_frame π Φ fuel f args μ ctx v μ' h
  exact reach_ge he.1 hs hv

/-! ## process level: history -/

/-- HISTORY INDEPENDENCE, for every module.  Whatever operations `h` came before -- calls of any function
with any arguments under any context, calls that fail, transformations, the caller mutating values it was
handed back -- the call `f(args, ctx=ctx)` observes `pureCall`, which mentions neither the history nor the
state.  A captured list may be assigned into and returned: the writes and the returned cells are the
activation's own (the proof uses the frame property: what a call returns lives in cells it allocated). -/
theorem history_independent (P : Prog) (fuel : Nat) (hπ : P.policy = Policy.current) (h : List Op)
    (fid : Nat) (d : FuncDef) (hd : P.defs[fid]? = some d) (args : List Tree) (ctx : Option Ctx) :
    (step P fuel (run P fuel State.init h) (.call fid args ctx)).2 = some (pureCall P fuel d args ctx) :=
  history_independent_of_copy P fuel (current_copies hπ) h fid d hd args ctx

/-- two histories, same observation -/
theorem history_independent_two_histories (P : Prog) (fuel : Nat) (hπ : P.policy = Policy.current) (h₁ h₂ : List Op)
    (fid : Nat) (d : FuncDef) (hd : P.defs[fid]? = some d) (args : List Tree) (ctx : Option Ctx) :
    (step P fuel (run P fuel State.init h₁) (.call fid args ctx)).2 =
    (step P fuel (run P fuel State.init h₂) (.call fid args ctx)).2 := by
  rw [history_independent P fuel hπ h₁ fid d hd, history_independent P fuel hπ h₂ fid d hd]

/-- a transformed copy (a new `FuncDef` identity: its own cache entry, its own compilation) of a definition
evaluates like the definition it was made from, wherever in the history it is made and called -/
theorem transformed_copy_same_result (P : Prog) (fuel : Nat) (hπ : P.policy = Policy.current) (h₁ h₂ : List Op)
    (fid : Nat) (d : FuncDef) (hd : P.defs[fid]? = some d) (args : List Tree) (ctx : Option Ctx) :
    (step P fuel (run P fuel (run P fuel State.init h₁) (.transform fid :: h₂))
        (.call (P.defs ++ (run P fuel State.init h₁).extra).length args ctx)).2 = some (pureCall P fuel d args ctx) := by
  obtain ⟨c1, r1⟩ := run_preserves_fixed (current_copies hπ) h₁ (cacheOK_init P fuel) (resultsOK_init P fuel)
  have hS : CacheOK P fuel (run P fuel (run P fuel State.init h₁) (.transform fid :: h₂)) :=
    (run_preserves_fixed (current_copies hπ) _ c1 r1).1
  apply step_call_obs hS
  show defAt P (run P fuel (step P fuel (run P fuel State.init h₁) (.transform fid)).1 h₂) _ = some d
  exact defAt_run h₂ (transform_new_identity P fuel _ fid d (defAt_of_defs _ hd))

def one : NV := .fv (.fin ⟨false, 0, 1⟩)
def two : NV := .fv (.fin ⟨false, 0, 2⟩)

/-- `D = [1.0]` at module level;  `def f(): D[0] = D[0] + 1; return D[0]`  (the F7 program) -/
def progF7 : Prog :=
  { defs := [{ name := "f", params := [], ctx := none,
               body := [.iassign "D" [.num (.q 0 1)] (.op .add [.index (.var "D") (.num (.q 0 1)), .num (.q 1 1)]),
                        .ret (.index (.var "D") (.num (.q 0 1)))] }],
    globals := [("D", .list 0)], pyHeap := [[.num one]] }

/-- `D = [1.0]` at module level;  `def g(): return D`  (the F8 program) -/
def progF8 : Prog :=
  { defs := [{ name := "g", params := [], ctx := none, body := [.ret (.var "D")] }],
    globals := [("D", .list 0)], pyHeap := [[.num one]] }

def obsNum : Obs → Option NV
  | some (.ok (.num v)) => some v
  | _ => none

def obsList1 : Obs → Option NV
  | some (.ok (.list [.num v])) => some v
  | _ => none

/-- non-vacuity on the programs of the repaired findings: 2, 2 and `[1]`, `[1]` -/
example : progF7.policy = Policy.current := rfl

example : (observe progF7 20 State.init [.call 0 [] none, .call 0 [] none]).map obsNum = [some two, some two] := by
  decide

example : (observe progF8 20 State.init
            [.call 0 [] none, .mutateResult 0 0 (.fv (.fin ⟨false, 0, 99⟩)), .call 0 [] none]).filterMap (fun o => obsList1 o)
    = [one, one] := by
  decide

/-! ### the code before the repairs (`Policy.legacy`): the property fails -/

/-- what held before the repair: history independence for modules whose capturable values hold no list
(true under either policy) -/
theorem legacy_history_independent_partial (P : Prog) (fuel : Nat) (hP : NoCapturedLists P) (h : List Op)
    (fid : Nat) (d : FuncDef) (hd : P.defs[fid]? = some d) (args : List Tree) (ctx : Option Ctx) :
    (step P fuel (run P fuel State.init h) (.call fid args ctx)).2 = some (pureCall P fuel d args ctx) :=
  step_call_obs (run_preserves hP h (cacheOK_init P fuel)) fid args ctx (defAt_of_defs _ hd)

/-- F7 (repaired by 20fad08): under the legacy capture-once-share-afterwards treatment the same call, made
twice in a row in a fresh process, returns 2 and then 3. -/
theorem legacy_history_independent_counterexample :
    (observe { progF7 with policy := Policy.legacy } 20 State.init [.call 0 [] none, .call 0 [] none]).map obsNum
      = [some two, some (.fv (.fin ⟨false, 0, 3⟩))] := by
  decide

/-- F8 (repaired by 1c6f5b2): under the legacy policy a returned captured list is the interpreter's own cell;
after the caller stores 99 into it the next call returns `[99]`. -/
theorem legacy_result_shared_counterexample :
    (observe { progF8 with policy := Policy.legacy } 20 State.init
        [.call 0 [] none, .mutateResult 0 0 (.fv (.fin ⟨false, 0, 99⟩)), .call 0 [] none]).filterMap (fun o => obsList1 o)
      = [one, .fv (.fin ⟨false, 0, 99⟩)] := by
  decide

/-- rebuilding results alone (the F8 repair without the F7 repair) would not have repaired F7 -/
example : (observe { progF7 with policy := { copyCaptured := false, rebuildResult := true } } 20 State.init
            [.call 0 [] none, .call 0 [] none]).map obsNum = [some two, some (.fv (.fin ⟨false, 0, 3⟩))] := by
  decide

/-! ## process level: threads -/

/-- SCHEDULE INDEPENDENCE, for every module (atomic steps only: preemption inside C extensions and gmpy2's
thread-local context are not modelled).  N calls run as threads over the shared cache; a schedule is ANY list
of thread indices.  Starting from a cache whose entries are compilations of their definitions (e.g. the
empty cache) and threads whose program counters hold what the sequential call would hold (e.g. all at their
first instruction), every thread that has finished holds the result of its call made alone in a fresh
process.  Cache insertions are idempotent: two threads that both miss both compile, both insert, and the
entries are equal; `run` leaves no cell behind. -/
theorem schedule_independent (P : Prog) (fuel : Nat) (hπ : P.policy = Policy.current) (sched : List Nat)
    (cache : List (Nat × Compiled)) (ts : List Thread) (hc : TCacheOK P fuel cache) (hts : ∀ t ∈ ts, ThreadOK P fuel t) :
    TCacheOK P fuel (runSchedule P fuel cache ts sched).1 ∧
    ∀ t ∈ (runSchedule P fuel cache ts sched).2, ∀ r, t.pc = .done r → r = seqResult P fuel t :=
  schedule_independent_from P fuel (Or.inr (current_copies hπ)) sched cache ts hc hts

/-- the threads of `calls`, each at its first instruction -/
def spawn (calls : List (Nat × List Tree × Option Ctx)) : List Thread :=
  calls.map (fun c => { fid := c.1, args := c.2.1, ctx := c.2.2, pc := .start })

/-- the statement for a fresh process: empty cache, all threads at `start` -/
theorem schedule_independent_fresh (P : Prog) (fuel : Nat) (hπ : P.policy = Policy.current)
    (calls : List (Nat × List Tree × Option Ctx)) (sched : List Nat) :
    ∀ t ∈ (runSchedule P fuel [] (spawn calls) sched).2, ∀ r, t.pc = .done r → r = seqResult P fuel t := by
  apply (schedule_independent P fuel hπ sched [] (spawn calls) ?_ ?_).2
  · intro fid c h; simp [lookup] at h
  · intro t ht
    simp only [spawn, List.mem_map] at ht
    obtain ⟨c, _, rfl⟩ := ht
    simp [ThreadOK]

/-- PROGRESS: a thread that gets the lock four times (`lookup, compile, insert, run`) has finished, whatever
the other threads do in between -- so with `schedule_independent_fresh` every fair schedule ends with
every call holding its sequential result. -/
theorem schedule_complete (P : Prog) (fuel : Nat) (calls : List (Nat × List Tree × Option Ctx)) (sched : List Nat)
    (i : Nat) (hi : i < calls.length) (hfair : 4 ≤ sched.count i) :
    ∃ t r, (runSchedule P fuel [] (spawn calls) sched).2[i]? = some t ∧ t.pc = .done r := by
  have hget : (spawn calls)[i]? = some { fid := calls[i].1, args := calls[i].2.1, ctx := calls[i].2.2, pc := .start } := by
    simp [spawn, List.getElem?_map, List.getElem?_eq_getElem hi]
  obtain ⟨t, h1, h2⟩ := runSchedule_rank P fuel sched [] (spawn calls) i _ hget
  refine ⟨t, ?_⟩
  have h0 : t.pc.rank = 0 := by
    have : PC.rank (PC.start) = 4 := rfl
    simp only [this] at h2
    omega
  cases hpc : t.pc with
  | done r => exact ⟨r, h1, rfl⟩
  | start => rw [hpc] at h0; simp [PC.rank] at h0
  | miss => rw [hpc] at h0; simp [PC.rank] at h0
  | compiled c => rw [hpc] at h0; simp [PC.rank] at h0
  | failed e => rw [hpc] at h0; simp [PC.rank] at h0
  | hit c => rw [hpc] at h0; simp [PC.rank] at h0
  | ready c => rw [hpc] at h0; simp [PC.rank] at h0

/-! ## non-vacuity -/

/-- a module that captures a scalar and a tuple of scalars satisfies the hypothesis -/
example : NoCapturedLists { defs := [], globals := [("K", .num one), ("T", .tuple [.num one, .bool true])], pyHeap := [] } := by
  simp [NoCapturedLists, RefFreeL, RefFree]

/-- `def h(xs): xs[0] = 2.0; return xs` called on the caller's list `[1.0]` (cell 0): it returns `[2.0]` in a
NEW cell (cell 2; cell 1 is the interpreter's copy of the argument) and cell 0 still holds `[1.0]` -/
def demoH : FuncDef :=
  { name := "h", params := ["xs"], ctx := none,
    body := [.iassign "xs" [.num (.q 0 1)] (.num two), .ret (.var "xs")] }

def demoLook : M (Val × Heap) → Option (Nat × List (Option NV))
  | .ok (.list r, μ) => some (r, (μ.map (fun l => match l with | [.num v] => some v | _ => none)))
  | _ => none

example : demoLook (callBoundary Policy.current ⟨[demoH]⟩ 20 "h" [.list 0] [[.num one]] none) = some (2, [some one, some two, some two]) := by
  decide

/-- two threads calling the same uncompiled function, interleaved so that both miss, both compile and
both insert: both finish with the sequential result -/
def demoK : Prog :=
  { defs := [{ name := "k", params := ["x"], ctx := none, body := [.ret (.op .add [.var "x", .var "K"])] }],
    globals := [("K", .num one)], pyHeap := [] }

def pcNum : PC → Option NV
  | .done (.ok (.num v)) => some v
  | _ => none

example : ((runSchedule demoK 20 [] (spawn [(0, [.num one], some .real), (0, [.num two], some .real)])
            [0, 1, 0, 1, 0, 1, 0, 1]).2.map (fun t => pcNum t.pc)) = [some two, some (.fv (.fin ⟨false, 0, 3⟩))] := by
  decide

end Fpy.C18
