/-
C01 at the VALUE level — Rounding under any context is correct rounding.
Property theorems only.  Specification: `Fpy/Spec/Rep.lean` (representable sets `OnGrid`, `RepFloat`,
`RepFixed`, `RepFloatSub`, `RepIn`; textbook rounding `roundVal` via `⌊·⌋`/`⌈·⌉`; format membership
`CtxMember`/`CtxSubstitute`/`CtxWF`).  Helper lemmas: `Fpy/Proof/RoundVal*.lean`.  The integer-level statements
(`Props/C01.lean`) are lifted here to rationals and to whole contexts.

Vocabulary.  `x.val : Rat` is the value of a `RealFloat` record.  `roundVal rm u q` is the correct
rounding of the real `q` to the multiples of `2^u` under mode `rm`: the candidates are
`gridLo u q = ⌊q/2^u⌋·2^u` and `gridHi u q = ⌈q/2^u⌉·2^u`; on the grid the number itself, otherwise
what the mode's name says.  `floatN x p minN = max(nmin, e − p)` is the rounding position of the
float shape (`e = x.e` is the binade exponent, `e_is_binade`).
-/
import Fpy.Proof.RoundValWF
import Fpy.Proof.RoundValRat6
namespace Fpy.Props.C01v
open Fpy Fpy.Spec Fpy.C01v

/-! ## 0. The specification is sane (any rational operand, no model involved) -/

/-- the two candidates enclose the operand, coincide or are one spacing apart, and the prescribed
value is one of them -/
theorem spec_neighbours (rm : RM) (u : Int) (q : Rat) :
    gridLo u q ≤ q ∧ q ≤ gridHi u q ∧
    (gridHi u q = gridLo u q ∨ gridHi u q = gridLo u q + (2 : Rat) ^ u) ∧
    (roundVal rm u q = gridLo u q ∨ roundVal rm u q = gridHi u q) :=
  roundVal_neighbours rm u q

theorem spec_on_grid (rm : RM) (u : Int) (q : Rat) :
    OnGrid u (roundVal rm u q) ∧ OnGrid u (gridLo u q) ∧ OnGrid u (gridHi u q) :=
  ⟨onGrid_roundVal rm u q, onGrid_gridLo u q, onGrid_gridHi u q⟩

/-- less than one spacing away, in every mode -/
theorem spec_close (rm : RM) (u : Int) (q : Rat) : (roundVal rm u q - q).abs < (2 : Rat) ^ u :=
  roundVal_close rm u q

/-- the operand itself exactly when it is representable -/
theorem spec_exact_iff (rm : RM) (u : Int) (q : Rat) : roundVal rm u q = q ↔ OnGrid u q :=
  roundVal_eq_iff rm u q

/-- nearest modes: within half a spacing, and no grid point is strictly closer -/
theorem spec_nearest (rm : RM) (hrm : rm = .rne ∨ rm = .rna) (u : Int) (q : Rat) :
    2 * (roundVal rm u q - q).abs ≤ (2 : Rat) ^ u ∧
    ∀ g, OnGrid u g → (roundVal rm u q - q).abs ≤ (g - q).abs :=
  ⟨roundVal_nearest_half rm hrm u q, fun g hg => roundVal_nearest_best rm hrm u q g hg⟩

/-- directed modes point where their names say -/
theorem spec_directed (u : Int) (q : Rat) :
    roundVal .rtn u q = gridLo u q ∧ roundVal .rtp u q = gridHi u q ∧
    (roundVal .rtz u q).abs ≤ q.abs ∧ q.abs ≤ (roundVal .raz u q).abs :=
  ⟨roundVal_rtn u q, roundVal_rtp u q, roundVal_rtz u q, roundVal_raz u q⟩

/-- **Bridge to the integer-level specification of `Props/C01.lean`.**  For a real of sign `s` and
magnitude `c / 2^k` grid units, the textbook rule picks the multiple `Spec.roundQuot rm s c k`. -/
theorem spec_bridge (rm : RM) (s : Bool) (c k : Nat) (u : Int) :
    roundVal rm u (RF.sgn s * ((c : Rat) / ((2 ^ k : Nat) : Rat)) * (2 : Rat) ^ u)
      = RF.sgn s * ((roundQuot rm s c k : Nat) : Rat) * (2 : Rat) ^ u := by
  rw [roundVal_frac rm s c (2 ^ k) (Nat.pow_pos (by decide)) u, roundQuot_eq_roundDiv]

/-- `x.e` is the binade exponent of a non-zero record -/
theorem e_is_binade (x : RF) (hc : x.c ≠ 0) :
    (2 : Rat) ^ x.e ≤ x.val.abs ∧ x.val.abs < (2 : Rat) ^ (x.e + 1) :=
  ⟨val_abs_ge x hc, val_abs_lt x⟩

theorem floatN_def (x : RF) (p : Nat) :
    floatN x p none = x.e - p ∧ ∀ m, floatN x p (some m) = max m (x.e - p) := ⟨rfl, fun _ => rfl⟩

/-! ## 1. The fixed shape: `RealFloat.round(min_n = n)`, every operand (zero, fast path, slow path) -/

/-- never raises -/
theorem round_fixed_total (x : RF) (n : Int) (rm : RM) : ∃ y fl, x.round none (some n) rm = .ok (y, fl) := by
  obtain ⟨y, fl, h, -⟩ := fixed_round_total x n rm; exact ⟨y, fl, h⟩

/-- **the result is the correct rounding of the value** to the multiples of `2^(n+1)`; sign kept -/
theorem round_fixed_val (x y : RF) (n : Int) (rm : RM) (fl : Flags)
    (h : x.round none (some n) rm = .ok (y, fl)) :
    y.val = roundVal rm (n + 1) x.val ∧ y.s = x.s := by
  obtain ⟨a, -, -, rm', hk, d, -⟩ := fixed_round_any x n rm (some 0) 0 y fl h
  rw [hk rfl] at d; exact ⟨d, a⟩

/-- the result is a member of the format -/
theorem round_fixed_on_grid (x y : RF) (n : Int) (rm : RM) (fl : Flags)
    (h : x.round none (some n) rm = .ok (y, fl)) : RepFixed n y.val := by
  rw [(round_fixed_val x y n rm fl h).1]; exact onGrid_roundVal rm (n + 1) x.val

/-- `lower ≤ x ≤ upper` with `lower`/`upper` the enclosing grid points, and the result is one of them -/
theorem round_fixed_neighbours (x y : RF) (n : Int) (rm : RM) (fl : Flags)
    (h : x.round none (some n) rm = .ok (y, fl)) :
    gridLo (n + 1) x.val ≤ x.val ∧ x.val ≤ gridHi (n + 1) x.val ∧
    (gridHi (n + 1) x.val = gridLo (n + 1) x.val ∨
      gridHi (n + 1) x.val = gridLo (n + 1) x.val + (2 : Rat) ^ (n + 1)) ∧
    (y.val = gridLo (n + 1) x.val ∨ y.val = gridHi (n + 1) x.val) := by
  rw [(round_fixed_val x y n rm fl h).1]; exact roundVal_neighbours rm (n + 1) x.val

theorem round_fixed_close (x y : RF) (n : Int) (rm : RM) (fl : Flags)
    (h : x.round none (some n) rm = .ok (y, fl)) : (y.val - x.val).abs < (2 : Rat) ^ (n + 1) := by
  rw [(round_fixed_val x y n rm fl h).1]; exact roundVal_close rm (n + 1) x.val

/-- nearest modes: at most half a spacing (`2^n`) away, and no member of the format is strictly closer -/
theorem round_fixed_nearest (x y : RF) (n : Int) (rm : RM) (fl : Flags) (hrm : rm = .rne ∨ rm = .rna)
    (h : x.round none (some n) rm = .ok (y, fl)) :
    (y.val - x.val).abs ≤ (2 : Rat) ^ n ∧ ∀ g, RepFixed n g → (y.val - x.val).abs ≤ (g - x.val).abs := by
  rw [(round_fixed_val x y n rm fl h).1]
  refine ⟨?_, fun g hg => roundVal_nearest_best rm hrm (n + 1) x.val g hg⟩
  have := roundVal_nearest_half rm hrm (n + 1) x.val
  rw [two_zpow_succ] at this
  have hG := RF.two_zpow_pos n
  grind

/-- directed modes -/
theorem round_fixed_rtz (x y : RF) (n : Int) (fl : Flags) (h : x.round none (some n) .rtz = .ok (y, fl)) :
    y.val.abs ≤ x.val.abs := by
  rw [(round_fixed_val x y n .rtz fl h).1]; exact roundVal_rtz (n + 1) x.val

theorem round_fixed_raz (x y : RF) (n : Int) (fl : Flags) (h : x.round none (some n) .raz = .ok (y, fl)) :
    x.val.abs ≤ y.val.abs := by
  rw [(round_fixed_val x y n .raz fl h).1]; exact roundVal_raz (n + 1) x.val

theorem round_fixed_rtp (x y : RF) (n : Int) (fl : Flags) (h : x.round none (some n) .rtp = .ok (y, fl)) :
    x.val ≤ y.val ∧ y.val = gridHi (n + 1) x.val := by
  rw [(round_fixed_val x y n .rtp fl h).1, roundVal_rtp]
  exact ⟨(roundVal_neighbours .rtp (n + 1) x.val).2.1, rfl⟩

theorem round_fixed_rtn (x y : RF) (n : Int) (fl : Flags) (h : x.round none (some n) .rtn = .ok (y, fl)) :
    y.val ≤ x.val ∧ y.val = gridLo (n + 1) x.val := by
  rw [(round_fixed_val x y n .rtn fl h).1, roundVal_rtn]
  exact ⟨(roundVal_neighbours .rtn (n + 1) x.val).1, rfl⟩

/-- the `inexact` flag is truthful -/
theorem round_fixed_exact_iff (x y : RF) (n : Int) (rm : RM) (fl : Flags)
    (h : x.round none (some n) rm = .ok (y, fl)) :
    (fl.inexact = false ↔ y.val = x.val) ∧ (y.val = x.val ↔ RepFixed n x.val) ∧ fl.overflow = false := by
  obtain ⟨-, -, ho, rm', hk, d, e⟩ := fixed_round_any x n rm (some 0) 0 y fl h
  rw [hk rfl] at d
  exact ⟨inexact_iff_eq d e, by rw [d]; exact roundVal_eq_iff rm (n + 1) x.val, ho⟩

/-- a representable operand is returned unchanged and unflagged -/
theorem round_fixed_unchanged (x y : RF) (n : Int) (rm : RM) (fl : Flags)
    (h : x.round none (some n) rm = .ok (y, fl)) (hx : RepFixed n x.val) :
    y.val = x.val ∧ fl.inexact = false := by
  obtain ⟨a, b, -⟩ := round_fixed_exact_iff x y n rm fl h
  exact ⟨b.2 hx, a.2 (b.2 hx)⟩

/-! ## 2. The float shape: `RealFloat.round(max_p = p, min_n = minN)`, non-zero operand -/

theorem round_float_total (x : RF) (p : Nat) (minN : Option Int) (rm : RM) (hc : x.c ≠ 0) (hp : 1 ≤ p) :
    ∃ y fl, x.round (some p) minN rm = .ok (y, fl) := by
  obtain ⟨y, fl, h, -⟩ := float_val x p minN rm hc hp; exact ⟨y, fl, h⟩

/-- **the result is the correct rounding of the value** to the multiples of `2^(n+1)`,
`n = max(nmin, e − p)`; sign kept -/
theorem round_float_val (x y : RF) (p : Nat) (minN : Option Int) (rm : RM) (fl : Flags) (hc : x.c ≠ 0)
    (hp : 1 ≤ p) (h : x.round (some p) minN rm = .ok (y, fl)) :
    y.val = roundVal rm (floatN x p minN + 1) x.val ∧ y.s = x.s := by
  obtain ⟨a, -, -, -, rm', hk, d, -⟩ := float_round_any x p minN rm (some 0) 0 y fl hc hp h
  rw [hk rfl] at d; exact ⟨d, a⟩

/-- the result is a member of the format: `p` digits, and on the subnormal grid when there is one -/
theorem round_float_rep (x y : RF) (p : Nat) (minN : Option Int) (rm : RM) (fl : Flags) (hc : x.c ≠ 0)
    (hp : 1 ≤ p) (h : x.round (some p) minN rm = .ok (y, fl)) :
    RepFloat p y.val ∧ ∀ nmin, minN = some nmin → RepFloatSub p nmin y.val := by
  obtain ⟨-, b, c, -⟩ := float_round_any x p minN rm (some 0) 0 y fl hc hp h
  refine ⟨repFloat_of_bitLength y p b, ?_⟩
  intro nmin e; subst e
  have := floatN_ge_nmin x p nmin
  exact repFloatSub_of_shape y p nmin b (by omega)

theorem round_float_close (x y : RF) (p : Nat) (minN : Option Int) (rm : RM) (fl : Flags) (hc : x.c ≠ 0)
    (hp : 1 ≤ p) (h : x.round (some p) minN rm = .ok (y, fl)) :
    (y.val - x.val).abs < (2 : Rat) ^ (floatN x p minN + 1) := by
  rw [(round_float_val x y p minN rm fl hc hp h).1]; exact roundVal_close rm _ x.val

/-- **KEY.**  A `p`-digit float of magnitude at least `2^e` has no digit below `e − p + 1`. -/
theorem rep_float_on_grid (p : Nat) (e : Int) (q : Rat) (h : RepFloat p q) (hq : (2 : Rat) ^ e ≤ q.abs) :
    OnGrid (e - p + 1) q :=
  Fpy.C01v.rep_float_on_grid p e q h hq

/-- **Adjacency.**  Inside the binade `|z| ≥ 2^e` no `p`-digit float lies strictly between two
adjacent multiples of `2^(e−p+1)`. -/
theorem no_rep_between (p : Nat) (e : Int) (a : Int) (z : Rat) (hz : RepFloat p z)
    (hmag : (2 : Rat) ^ e ≤ z.abs) :
    ¬ ((a : Rat) * (2 : Rat) ^ (e - p + 1) < z ∧ z < ((a + 1 : Int) : Rat) * (2 : Rat) ^ (e - p + 1)) :=
  Fpy.C01v.no_rep_between p e a z hz hmag

/-- **the result is one of the two NEAREST representable neighbours**: the enclosing grid points at the
rounding position are members of the format, no member lies strictly between them, and the result is
one of them (which one: `round_float_val`) -/
theorem round_float_neighbours (x y : RF) (p : Nat) (minN : Option Int) (rm : RM) (fl : Flags) (hc : x.c ≠ 0)
    (hp : 1 ≤ p) (h : x.round (some p) minN rm = .ok (y, fl)) :
    RepIn p minN (gridLo (floatN x p minN + 1) x.val) ∧ RepIn p minN (gridHi (floatN x p minN + 1) x.val) ∧
    gridLo (floatN x p minN + 1) x.val ≤ x.val ∧ x.val ≤ gridHi (floatN x p minN + 1) x.val ∧
    (y.val = gridLo (floatN x p minN + 1) x.val ∨ y.val = gridHi (floatN x p minN + 1) x.val) ∧
    ∀ z, RepIn p minN z →
      ¬ (gridLo (floatN x p minN + 1) x.val < z ∧ z < gridHi (floatN x p minN + 1) x.val) := by
  obtain ⟨a, b, c⟩ := float_neighbours x p minN hc hp
  obtain ⟨d, e, -, f⟩ := roundVal_neighbours rm (floatN x p minN + 1) x.val
  rw [← (round_float_val x y p minN rm fl hc hp h).1] at f
  exact ⟨a, b, d, e, f, c⟩

/-- nearest modes: no member of the format is strictly closer to the operand than the result -/
theorem round_float_nearest (x y : RF) (p : Nat) (minN : Option Int) (rm : RM) (fl : Flags)
    (hrm : rm = .rne ∨ rm = .rna) (hc : x.c ≠ 0) (hp : 1 ≤ p)
    (h : x.round (some p) minN rm = .ok (y, fl)) (z : Rat) (hz : RepIn p minN z) :
    (y.val - x.val).abs ≤ (z - x.val).abs := by
  rw [(round_float_val x y p minN rm fl hc hp h).1]; exact float_nearest x p minN rm hrm hc hp z hz

/-- directed modes -/
theorem round_float_directed (x y : RF) (p : Nat) (minN : Option Int) (rm : RM) (fl : Flags) (hc : x.c ≠ 0)
    (hp : 1 ≤ p) (h : x.round (some p) minN rm = .ok (y, fl)) :
    (rm = .rtz → y.val.abs ≤ x.val.abs) ∧ (rm = .raz → x.val.abs ≤ y.val.abs) ∧
    (rm = .rtp → x.val ≤ y.val) ∧ (rm = .rtn → y.val ≤ x.val) := by
  have hv := (round_float_val x y p minN rm fl hc hp h).1
  refine ⟨?_, ?_, ?_, ?_⟩ <;> intro e <;> subst e <;> rw [hv]
  · exact roundVal_rtz _ x.val
  · exact roundVal_raz _ x.val
  · rw [roundVal_rtp]; exact (roundVal_neighbours .rtp _ x.val).2.1
  · rw [roundVal_rtn]; exact (roundVal_neighbours .rtn _ x.val).1

/-- a representable operand is returned unchanged (in value) and unflagged -/
theorem round_float_unchanged (x y : RF) (p : Nat) (minN : Option Int) (rm : RM) (fl : Flags) (hc : x.c ≠ 0)
    (hp : 1 ≤ p) (h : x.round (some p) minN rm = .ok (y, fl)) (hx : RepIn p minN x.val) :
    y.val = x.val ∧ fl.inexact = false := by
  obtain ⟨-, -, -, -, rm', hk, d, e⟩ := float_round_any x p minN rm (some 0) 0 y fl hc hp h
  have hg : OnGrid (floatN x p minN + 1) x.val := by
    rcases floatN_cases x p minN with ⟨hn, -⟩ | ⟨nmin, hm, hn⟩
    · rw [hn]; exact Fpy.C01v.rep_float_on_grid p x.e x.val hx.1 (val_abs_ge x hc)
    · rw [hn]; exact hx.2 nmin hm
  exact ⟨by rw [d]; exact (roundVal_eq_iff rm' _ x.val).2 hg, e.2 hg⟩

/-- the `inexact` flag is truthful: clear ⇔ value unchanged ⇔ the operand is a member of the format -/
theorem round_float_exact_iff (x y : RF) (p : Nat) (minN : Option Int) (rm : RM) (fl : Flags) (hc : x.c ≠ 0)
    (hp : 1 ≤ p) (h : x.round (some p) minN rm = .ok (y, fl)) :
    (fl.inexact = false ↔ y.val = x.val) ∧ (y.val = x.val ↔ RepIn p minN x.val) ∧ fl.overflow = false := by
  obtain ⟨-, -, -, ho, rm', hk, d, e⟩ := float_round_any x p minN rm (some 0) 0 y fl hc hp h
  refine ⟨inexact_iff_eq d e, ⟨?_, fun hx => (round_float_unchanged x y p minN rm fl hc hp h hx).1⟩, ho⟩
  intro hv
  obtain ⟨r1, r2⟩ := round_float_rep x y p minN rm fl hc hp h
  rw [hv] at r1 r2
  exact ⟨r1, fun nmin e => (r2 nmin e).2⟩

/-! ## 3. Non-dyadic rational operands (`Fraction`): `mpfr_value` + round-to-odd, then the core -/

/-- `ratE N D` (the exponent search of `truncRat`) is the binade exponent of the rational -/
theorem frac_binade (num : Int) (den : Nat) (hnum : num ≠ 0) (hden : 0 < den) :
    (2 : Rat) ^ ratE num.natAbs den ≤ ((num : Rat) / (den : Rat)).abs ∧
    ((num : Rat) / (den : Rat)).abs < (2 : Rat) ^ (ratE num.natAbs den + 1) := by
  rw [frac_val]; exact ratVal_binade _ _ _ (by omega) hden

theorem ratN_def (N D p : Nat) :
    ratN N D p none = ratE N D - p ∧ ∀ m, ratN N D p (some m) = max m (ratE N D - p) := ⟨rfl, fun _ => rfl⟩

/-- **Round-to-odd re-rounding at the value level.**  The truncation of the real `A/B · 2^exp` with a
sticky last digit rounds, on every grid at least two digits coarser and under every mode, to the
correct rounding of the real itself, and is on that grid exactly when the real is. -/
theorem rto_reround_val (rm : RM) (neg : Bool) (A B : Nat) (hB : 0 < B) (exp u : Int) (hu : exp + 2 ≤ u) :
    roundVal rm u (⟨neg, exp, rtoBit (A / B) (A % B != 0)⟩ : RF).val
      = roundVal rm u (RF.sgn neg * ((A : Rat) / (B : Rat)) * (2 : Rat) ^ exp) ∧
    (OnGrid u (⟨neg, exp, rtoBit (A / B) (A % B != 0)⟩ : RF).val
      ↔ OnGrid u (RF.sgn neg * ((A : Rat) / (B : Rat)) * (2 : Rat) ^ exp)) :=
  rto_roundVal rm neg A B hB exp u hu

/-- **prepare + round, fixed shape**: `mpfr_value(N/D, n = n)` never raises and its rounding at `n` is
the correct rounding of the rational `±N/D` -/
theorem prepare_sound_fixed (neg : Bool) (N D : Nat) (n : Int) (rm : RM) (hN : N ≠ 0) (hD : 0 < D) :
    ∃ xi y fl, mpfrValue neg N D none (some n) = .ok xi ∧ xi.c ≠ 0 ∧ xi.s = neg ∧
      xi.round none (some n) rm = .ok (y, fl) ∧ y.s = neg ∧ y.exp > n ∧
      y.val = roundVal rm (n + 1) (ratVal neg N D) ∧
      (fl.inexact = false ↔ OnGrid (n + 1) (ratVal neg N D)) :=
  frac_round_fixed neg N D n rm hN hD

/-- **prepare + round, float shape**: `mpfr_value(N/D, prec = p)` (`p + 2` digits, round to odd) rounded to
`p` digits is the correct rounding of the rational at `n = max(nmin, e − p)` -/
theorem prepare_sound_float (neg : Bool) (N D p : Nat) (minN : Option Int) (rm : RM) (hN : N ≠ 0) (hD : 0 < D)
    (hp : 1 ≤ p) :
    mpfrValue neg N D (some p) minN = .ok (rtoRat neg N D (p + 2)) ∧
    (rtoRat neg N D (p + 2)).c ≠ 0 ∧ (rtoRat neg N D (p + 2)).s = neg ∧
    ∃ y fl, (rtoRat neg N D (p + 2)).round (some p) minN rm = .ok (y, fl) ∧
      y.s = neg ∧ bitLength y.c ≤ p ∧ y.exp > ratN N D p minN ∧
      y.val = roundVal rm (ratN N D p minN + 1) (ratVal neg N D) ∧
      (fl.inexact = false ↔ OnGrid (ratN N D p minN + 1) (ratVal neg N D)) :=
  ⟨rfl, frac_round_float neg N D p minN rm hN hD hp⟩

/-- a fraction in lowest terms with a non-power-of-two denominator is on no binary grid: its rounding
is always inexact -/
theorem frac_never_exact (num : Int) (den : Nat) (hden : 0 < den) (hcop : Nat.gcd num.natAbs den = 1)
    (h2 : isPow2 den = false) (u : Int) : ¬ OnGrid u ((num : Rat) / (den : Rat)) :=
  not_onGrid_frac num den hden hcop h2 u

/-- `Context.round(Fraction)`, unbounded families, deterministic rounding -/
theorem mp_round_frac (p : Nat) (rm : RM) (o : Opts) (hp : 1 ≤ p) (num : Int) (den : Nat)
    (hnum : num ≠ 0) (hden : 0 < den) (h1 : den ≠ 1) (h2 : isPow2 den = false) :
    ∃ y fl, Ctx.round (.mp p rm (some 0) o) (.frac num den) = .ok ⟨.fin y, fl⟩ ∧
      bitLength y.c ≤ p ∧
      y.val = roundVal rm (ratN num.natAbs den p none + 1) ((num : Rat) / (den : Rat)) ∧
      (fl.inexact = false ↔ OnGrid (ratN num.natAbs den p none + 1) ((num : Rat) / (den : Rat))) :=
  Fpy.C01v.mp_round_frac p rm o hp num den hnum hden h1 h2

theorem mps_round_frac (p : Nat) (emin : Int) (rm : RM) (o : Opts) (hp : 1 ≤ p) (num : Int) (den : Nat)
    (hnum : num ≠ 0) (hden : 0 < den) (h1 : den ≠ 1) (h2 : isPow2 den = false) :
    ∃ y fl, Ctx.round (.mps p emin rm (some 0) o) (.frac num den) = .ok ⟨.fin y, fl⟩ ∧
      bitLength y.c ≤ p ∧ y.exp > emin - p ∧
      y.val = roundVal rm (ratN num.natAbs den p (some (emin - p)) + 1) ((num : Rat) / (den : Rat)) ∧
      (fl.inexact = false ↔
        OnGrid (ratN num.natAbs den p (some (emin - p)) + 1) ((num : Rat) / (den : Rat))) :=
  Fpy.C01v.mps_round_frac p emin rm o hp num den hnum hden h1 h2

theorem mpfix_round_frac (nmin : Int) (rm : RM) (nz : Bool) (o : Opts) (num : Int) (den : Nat)
    (hnum : num ≠ 0) (hden : 0 < den) (h1 : den ≠ 1) (h2 : isPow2 den = false) :
    ∃ y fl, Ctx.round (.mpfix nmin rm (some 0) nz o) (.frac num den) = .ok ⟨.fin y, fl⟩ ∧
      y.val = roundVal rm (nmin + 1) ((num : Rat) / (den : Rat)) ∧
      (fl.inexact = false ↔ OnGrid (nmin + 1) ((num : Rat) / (den : Rat))) :=
  Fpy.C01v.mpfix_round_frac nmin rm nz o num den hnum hden h1 h2

/-- `Context.round(Fraction)`, bounded families: the unbounded rounding `y` that feeds the range check is
the correct rounding of the rational; in range it is the result; the overflow flag is set exactly when it
is out of range (what is returned then: `Props.C01.mpb_overflow`) -/
theorem mpb_round_frac (c : MPBParams) (hk : c.k = some 0) (hwf : CtxWF (.mpb c)) (num : Int) (den : Nat)
    (hnum : num ≠ 0) (hden : 0 < den) (h1 : den ≠ 1) (h2 : isPow2 den = false) :
    ∃ (y : RF) (fl : Flags), bitLength y.c ≤ c.p ∧ y.exp > c.nmin ∧
      y.val = roundVal c.rm (ratN num.natAbs den c.p (some c.nmin) + 1) ((num : Rat) / (den : Rat)) ∧
      (fl.inexact = false ↔ OnGrid (ratN num.natAbs den c.p (some c.nmin) + 1) ((num : Rat) / (den : Rat))) ∧
      ((c.negMax.val ≤ y.val ∧ y.val ≤ c.posMax.val) →
        Ctx.round (.mpb c) (.frac num den) = .ok ⟨.fin y, fl⟩) ∧
      (∀ res, Ctx.round (.mpb c) (.frac num den) = .ok res →
        (res.fl.overflow = true ↔ (y.val < c.negMax.val ∨ c.posMax.val < y.val))) :=
  Fpy.C01v.mpb_round_frac c hk hwf num den hnum hden h1 h2

theorem efloat_round_frac (c : EFloatParams) (hk : c.k = some 0) (hwf : CtxWF (.efloat c)) (num : Int) (den : Nat)
    (hnum : num ≠ 0) (hden : 0 < den) (h1 : den ≠ 1) (h2 : isPow2 den = false) :
    ∃ (y : RF) (fl : Flags), bitLength y.c ≤ c.mpb.p ∧ y.exp > c.mpb.nmin ∧
      y.val = roundVal c.rm (ratN num.natAbs den c.mpb.p (some c.mpb.nmin) + 1) ((num : Rat) / (den : Rat)) ∧
      (fl.inexact = false ↔
        OnGrid (ratN num.natAbs den c.mpb.p (some c.mpb.nmin) + 1) ((num : Rat) / (den : Rat))) ∧
      ((c.mpb.negMax.val ≤ y.val ∧ y.val ≤ c.mpb.posMax.val) →
        ∃ y', y'.val = y.val ∧ Ctx.round (.efloat c) (.frac num den) = .ok ⟨.fin y', fl⟩) ∧
      (∀ res, Ctx.round (.efloat c) (.frac num den) = .ok res →
        (res.fl.overflow = true ↔ (y.val < c.mpb.negMax.val ∨ c.mpb.posMax.val < y.val))) :=
  Fpy.C01v.efloat_round_frac c hk hwf num den hnum hden h1 h2

theorem mpbfix_round_frac (c : MPBFixParams) (hk : c.k = some 0) (hwf : CtxWF (.mpbfix c)) (num : Int) (den : Nat)
    (hnum : num ≠ 0) (hden : 0 < den) (h1 : den ≠ 1) (h2 : isPow2 den = false) :
    ∃ (y : RF) (fl : Flags), y.exp > c.nmin ∧
      y.val = roundVal c.rm (c.nmin + 1) ((num : Rat) / (den : Rat)) ∧
      (fl.inexact = false ↔ OnGrid (c.nmin + 1) ((num : Rat) / (den : Rat))) ∧
      ((c.negMax.val ≤ y.val ∧ y.val ≤ c.posMax.val) →
        ∃ y', y'.val = y.val ∧ Ctx.round (.mpbfix c) (.frac num den) = .ok ⟨.fin y', fl⟩) ∧
      (∀ res, Ctx.round (.mpbfix c) (.frac num den) = .ok res →
        (res.fl.overflow = true ↔ (y.val < c.negMax.val ∨ c.posMax.val < y.val))) :=
  Fpy.C01v.mpbfix_round_frac c hk hwf num den hnum hden h1 h2

/-! ## 4. Whole contexts -/

/-- **Membership.**  Every value returned by `_round_at` of every family — for every operand (finite,
infinite, NaN), every number of random bits and every draw — is a member of the context's format:
a finite member (`p` digits / on the grid, within `[negMax, posMax]` for the bounded families, `−0`
only where the format has it), `±∞` only if the format has infinities, NaN only if it has NaN; or it
is the configured substitute of a special value the format lacks.  (The exponential family `ExpContext`
is included: its finite members are the powers of two `2^e`, `emin ≤ e ≤ emax`.) -/
theorem round_mem (C : Ctx) (hwf : CtxWF C) (v : FV) (r : Nat) (res : Res)
    (h : C.roundAtCore v none false r = .ok res) : CtxMember C res.v ∨ CtxSubstitute C res.v :=
  round_mem_all C hwf v r res h

/-- finite operands of the float families without substitutes configured: the result IS a member -/
theorem round_mem_no_substitutes (C : Ctx) (hwf : CtxWF C) (v : FV) (r : Nat) (res : Res)
    (hi : infSub C = none) (hn : nanSub C = none)
    (h : C.roundAtCore v none false r = .ok res) : CtxMember C res.v := by
  rcases round_mem_all C hwf v r res h with h' | h'
  · exact h'
  · exfalso
    rcases h' with ⟨-, w, hw, -⟩ | ⟨-, w, hw, -⟩
    · rw [hi] at hw; cases hw
    · rw [hn] at hw; cases hw

/-- **Correct rounding at context level** (deterministic rounding, finite non-zero dyadic operand),
unbounded families -/
theorem mp_round_val (p : Nat) (rm : RM) (o : Opts) (hp : 1 ≤ p) (x : RF) (hx : x.c ≠ 0) :
    ∃ (y : RF) (fl : Flags), (Ctx.mp p rm (some 0) o).roundAtCore (.fin x) none false 0 = .ok ⟨.fin y, fl⟩ ∧
      bitLength y.c ≤ p ∧ y.val = roundVal rm (floatN x p none + 1) x.val ∧
      (fl.inexact = false ↔ y.val = x.val) :=
  Fpy.C01v.mp_round_val p rm o hp x hx

theorem mps_round_val (p : Nat) (emin : Int) (rm : RM) (o : Opts) (hp : 1 ≤ p) (x : RF) (hx : x.c ≠ 0) :
    ∃ (y : RF) (fl : Flags), (Ctx.mps p emin rm (some 0) o).roundAtCore (.fin x) none false 0 = .ok ⟨.fin y, fl⟩ ∧
      bitLength y.c ≤ p ∧ y.exp > emin - p ∧
      y.val = roundVal rm (floatN x p (some (emin - p)) + 1) x.val ∧
      (fl.inexact = false ↔ y.val = x.val) :=
  Fpy.C01v.mps_round_val p emin rm o hp x hx

theorem mpfix_round_val (nmin : Int) (rm : RM) (nz : Bool) (o : Opts) (x : RF) (hx : x.c ≠ 0) :
    ∃ (y : RF) (fl : Flags), (Ctx.mpfix nmin rm (some 0) nz o).roundAtCore (.fin x) none false 0 = .ok ⟨.fin y, fl⟩ ∧
      y.val = roundVal rm (nmin + 1) x.val ∧ (fl.inexact = false ↔ y.val = x.val) :=
  Fpy.C01v.mpfix_round_val nmin rm nz o x hx

/-- … bounded families: the unbounded rounding `y` is the correct rounding; it is the result when in
range; the overflow flag is set exactly when it is not -/
theorem mpb_round_val (c : MPBParams) (hk : c.k = some 0) (hwf : CtxWF (.mpb c)) (x : RF) (hx : x.c ≠ 0) :
    ∃ (y : RF) (fl : Flags), bitLength y.c ≤ c.p ∧ y.exp > c.nmin ∧
      y.val = roundVal c.rm (floatN x c.p (some c.nmin) + 1) x.val ∧
      (fl.inexact = false ↔ y.val = x.val) ∧
      ((c.negMax.val ≤ y.val ∧ y.val ≤ c.posMax.val) →
        (Ctx.mpb c).roundAtCore (.fin x) none false 0 = .ok ⟨.fin y, fl⟩) ∧
      (∀ res, (Ctx.mpb c).roundAtCore (.fin x) none false 0 = .ok res →
        (res.fl.overflow = true ↔ (y.val < c.negMax.val ∨ c.posMax.val < y.val))) :=
  Fpy.C01v.mpb_round_val c hk hwf x hx

theorem efloat_round_val (c : EFloatParams) (hk : c.k = some 0) (hwf : CtxWF (.efloat c)) (x : RF) (hx : x.c ≠ 0) :
    ∃ (y : RF) (fl : Flags), bitLength y.c ≤ c.mpb.p ∧ y.exp > c.mpb.nmin ∧
      y.val = roundVal c.rm (floatN x c.mpb.p (some c.mpb.nmin) + 1) x.val ∧
      (fl.inexact = false ↔ y.val = x.val) ∧
      ((c.mpb.negMax.val ≤ y.val ∧ y.val ≤ c.mpb.posMax.val) →
        ∃ y', y'.val = y.val ∧ (Ctx.efloat c).roundAtCore (.fin x) none false 0 = .ok ⟨.fin y', fl⟩) ∧
      (∀ res, (Ctx.efloat c).roundAtCore (.fin x) none false 0 = .ok res →
        (res.fl.overflow = true ↔ (y.val < c.mpb.negMax.val ∨ c.mpb.posMax.val < y.val))) :=
  Fpy.C01v.efloat_round_val c hk hwf x hx

theorem mpbfix_round_val (c : MPBFixParams) (hk : c.k = some 0) (hwf : CtxWF (.mpbfix c)) (x : RF) (hx : x.c ≠ 0) :
    ∃ (y : RF) (fl : Flags), y.exp > c.nmin ∧
      y.val = roundVal c.rm (c.nmin + 1) x.val ∧ (fl.inexact = false ↔ y.val = x.val) ∧
      ((c.negMax.val ≤ y.val ∧ y.val ≤ c.posMax.val) →
        ∃ y', y'.val = y.val ∧ (Ctx.mpbfix c).roundAtCore (.fin x) none false 0 = .ok ⟨.fin y', fl⟩) ∧
      (∀ res, (Ctx.mpbfix c).roundAtCore (.fin x) none false 0 = .ok res →
        (res.fl.overflow = true ↔ (y.val < c.negMax.val ∨ c.posMax.val < y.val))) :=
  Fpy.C01v.mpbfix_round_val c hk hwf x hx

/-- **The overflow flag is truthful** (any number of random bits): set exactly when the
unbounded-range rounding exceeds `[negMax, posMax]` -/
theorem flag_overflow_iff_mpb (c : MPBParams) (hwf : CtxWF (.mpb c)) (x : RF) (hx : x.c ≠ 0) (r : Nat) (y : RF)
    (fl : Flags) (hr : x.round (some c.p) (some c.nmin) c.rm c.k r false = .ok (y, fl)) (res : Res)
    (h : mpbRoundAt c (.fin x) none false r = .ok res) :
    res.fl.overflow = true ↔ (y.val < c.negMax.val ∨ c.posMax.val < y.val) :=
  mpb_flag_overflow c hwf x hx r y fl hr res h

theorem flag_overflow_iff_mpbfix (c : MPBFixParams) (hwf : CtxWF (.mpbfix c)) (x : RF) (hx : x.c ≠ 0) (r : Nat)
    (y : RF) (fl : Flags) (hr : x.round none (some c.nmin) c.rm c.k r false = .ok (y, fl)) (res : Res)
    (h : mpbfixRoundAt c (.fin x) none false r = .ok res) :
    res.fl.overflow = true ↔ (y.val < c.negMax.val ∨ c.posMax.val < y.val) :=
  mpbfix_flag_overflow c hwf x hx r y fl hr res h

theorem flag_overflow_iff_efloat (c : EFloatParams) (hwf : CtxWF (.efloat c)) (x : RF) (hx : x.c ≠ 0) (r : Nat)
    (y : RF) (fl : Flags)
    (hr : x.round (some c.mpb.p) (some c.mpb.nmin) c.mpb.rm c.mpb.k r false = .ok (y, fl)) (res : Res)
    (h : (Ctx.efloat c).roundAtCore (.fin x) none false r = .ok res) :
    res.fl.overflow = true ↔ (y.val < c.mpb.negMax.val ∨ c.mpb.posMax.val < y.val) :=
  efloat_flag_overflow c hwf x hx r y fl hr res h

/-- stochastic rounding (any number of random bits, any draw) lands on one of the two neighbours:
it is the deterministic rounding under SOME mode -/
theorem round_stochastic_is_some_mode (x : RF) (maxP : Option Nat) (minN : Option Int) (rm : RM)
    (k : Option Nat) (r : Nat) (y : RF) (fl : Flags) (h : x.round maxP minN rm k r false = .ok (y, fl)) :
    ∃ rm', x.round maxP minN rm' (some 0) 0 false = .ok (y, fl) ∧ (k = some 0 → rm' = rm) :=
  round_any_k x maxP minN rm k r y fl h

/-- the well-formedness hypothesis follows from the shape of the extreme values (decidable) -/
theorem wf_of_shape_mpb (c : MPBParams) (h1 : 1 ≤ c.p)
    (h2 : bitLength c.posMax.c ≤ c.p) (h3 : c.posMax.exp > c.nmin) (h4 : c.posMax.s = false)
    (h5 : bitLength c.negMax.c ≤ c.p) (h6 : c.negMax.exp > c.nmin) (h7 : c.negMax.s = true) :
    CtxWF (.mpb c) := wf_mpb_of_shape c h1 h2 h3 h4 h5 h6 h7

theorem wf_of_shape_efloat (c : EFloatParams) (h1 : 1 ≤ c.mpb.p)
    (h2 : bitLength c.mpb.posMax.c ≤ c.mpb.p) (h3 : c.mpb.posMax.exp > c.mpb.nmin) (h4 : c.mpb.posMax.s = false) :
    CtxWF (.efloat c) := wf_efloat_of_shape c h1 h2 h3 h4

theorem wf_of_shape_mpbfix (c : MPBFixParams)
    (h3 : c.posMax.exp > c.nmin) (h4 : c.posMax.s = false)
    (h6 : c.negMax.exp > c.nmin) (h7 : c.negMax.s = true ∨ c.negMax.c = 0) :
    CtxWF (.mpbfix c) := wf_mpbfix_of_shape c h3 h4 h6 h7

/-! ## Non-vacuity: concrete operands and contexts meeting the hypotheses, evaluated by the kernel -/

-- 13 rounded to multiples of 2 under RNE is 12 (inexact); 13 = 6.5 grid units
example : ((⟨false, 0, 13⟩ : RF).round none (some 0) .rne).toOption = some (⟨false, 1, 6⟩, { inexact := true }) := by
  decide
-- a grid point is returned unchanged: 12 on the grid of spacing 2
example : ((⟨false, 0, 12⟩ : RF).round none (some 0) .rne).toOption = some (⟨false, 1, 6⟩, { }) := by decide
example : RepFixed 0 (⟨false, 1, 6⟩ : RF).val := onGrid_of_le_exp _ _ (by decide)
-- float shape, 3 digits: 13 → 12 (= 6·2^1), 15 → 16 (carry into the next binade)
example : ((⟨false, 0, 13⟩ : RF).round (some 3) none .rne).toOption = some (⟨false, 1, 6⟩, { inexact := true }) := by
  decide
example : (⟨false, 0, 13⟩ : RF).c ≠ 0 ∧ 1 ≤ 3 ∧ floatN ⟨false, 0, 13⟩ 3 none = 0 := by decide
example : RepFloat 3 (⟨false, 1, 6⟩ : RF).val := repFloat_of_bitLength _ 3 (by decide)
-- a non-dyadic fraction: 1/3 with 3 digits is prepared as 5 digits round-to-odd: 21·2^-6 (=0.328125, sticky set)
example : mpfrValue false 1 3 (some 3) none = .ok ⟨false, -6, 21⟩ := rfl
example : (1 : Nat) ≠ 0 ∧ 0 < 3 ∧ (3 : Nat) ≠ 1 ∧ isPow2 3 = false ∧ Nat.gcd (1 : Int).natAbs 3 = 1 := by decide
example : ratE 1 3 = -2 := by decide
-- well-formed bounded contexts exist: a 3-digit bounded float, an 8-bit signed fixed-point, an 8-bit EFloat
example : CtxWF (.mpb { p := 3, emin := -2, posMax := ⟨false, 1, 7⟩, negMax := ⟨true, 1, 7⟩, rm := RM.rne, ov := OV.overflow, k := some 0, o := {} }) :=
  wf_mpb_of_shape _ (by decide) (by decide) (by decide) rfl (by decide) (by decide) rfl
example : CtxWF (Ctx.fixed true (-2) 8 .rne .saturate (some 0) none none) :=
  wf_mpbfix_of_shape _ (by decide) rfl (by decide) (Or.inl rfl)
example : CtxWF (.efloat { es := 4, nbits := 8, inf := false, kind := NanKind.maxVal, eoff := 0, rm := RM.rne, ov := OV.saturate, k := some 0, nanValue := none, infValue := none }) :=
  wf_efloat_of_shape _ (by decide) (by decide) (by decide) (by decide)

end Fpy.Props.C01v
