/-
Denotations for property C05: what number a value of the model stands for.
`RF.val` (in the model) is `RealFloat.as_rational`; here: the normal form pieces `sgn`, `m`,
the extended-real denotation of `Float` values and of operands of the five Python types,
the Spec operation of each binary operator, and the exponent `normalize` aims at.
-/
import Fpy.Model.Num.Mixed
import Fpy.Spec.ExtReal
namespace Fpy
open Fpy.Spec

namespace RF

/-- signed significand (`RealFloat.m`) -/
def m (x : RF) : Int := if x.s then -(x.c : Int) else x.c

/-- the sign factor `(-1)^s` -/
def sgn (s : Bool) : Rat := if s then -1 else 1

/-- the exponent `normalize(p, n)` aims at -/
def normTarget (x : RF) : Option Nat → Option Int → Int
  | none, none => x.exp
  | some p, none => x.e - p + 1
  | none, some n => n + 1
  | some p, some n => max (x.e - p + 1) (n + 1)

end RF

/-- denotation of a `Float` value in the extended reals -/
def FV.den : FV → ExtVal
  | .fin x => .fin x.val
  | .inf s => ExtVal.ofInf s
  | .nan _ => .nan

/-- denotation of an operand of any of the five types -/
def Num.den : Num → ExtVal
  | .F v => v.den
  | .R x => .fin x.val
  | .I i => .fin (i : Rat)
  | .D v => v.den
  | .Q n d => .fin (mkRat n d)

/-- the Spec operation a binary operator stands for -/
def Num.BinOp.spec : Num.BinOp → ExtVal → ExtVal → ExtVal
  | .add => ExtVal.add | .sub => ExtVal.sub | .mul => ExtVal.mul

/-- is the operand one of the two library types? -/
def Num.isFpy : Num → Bool | .F _ => true | .R _ => true | _ => false
/-- operands that have an exact `RealFloat`: everything but a `Fraction` whose denominator is not a power of two -/
def Num.dyadic : Num → Bool | .Q _ d => isPow2 d | _ => true

end Fpy
