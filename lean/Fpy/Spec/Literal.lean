/-
Specification for C06: what number a spelling denotes, written directly.

A spelling in scientific form is `[sign] PREFIX int-digits [. frac-digits] [E [sign] exp-digits]`.
Its value is the positional sum `Σ dᵢ·baseⁱ` of the integer digits plus `Σ dⱼ·base^-(j+1)` of the
fraction digits, scaled by `b^exponent`, negated if the sign is `-`.
The grammar is given as a *generator* (`Sci.render`), not as a parser.  Core Lean only.
-/
namespace Fpy.Spec.Lit

/-- the digit alphabet; the value of a digit is its position in it -/
def alphabet : List Char :=
  ['0', '1', '2', '3', '4', '5', '6', '7', '8', '9', 'a', 'b', 'c', 'd', 'e', 'f']

def digit (c : Char) : Nat := alphabet.idxOf c

/-- `c` is a digit of base `base` (≤ 16) -/
def IsDigit (base : Nat) (c : Char) : Prop := c ∈ alphabet.take base

/-- `Σ dᵢ · base^(n-1-i)` -/
def intVal (base : Nat) : List Char → Nat
  | [] => 0
  | c :: cs => digit c * base ^ cs.length + intVal base cs

/-- `Σ dⱼ · base^-(j+1)` -/
def fracVal (base : Nat) : List Char → Rat
  | [] => 0
  | c :: cs => ((digit c : Rat) + fracVal base cs) / (base : Rat)

/-- a sign: absent, `+` or `-` -/
inductive Sign | none | plus | minus
deriving DecidableEq, Repr

def Sign.chars : Sign → List Char
  | .none => [] | .plus => ['+'] | .minus => ['-']

def Sign.isNeg : Sign → Bool
  | .minus => true | _ => false

/-- the parts of a spelling -/
structure Sci where
  sign : Sign
  ip : List Char                      -- integer digits (may be empty only if there is a fraction)
  fp : Option (List Char)             -- fraction digits after the point
  ex : Option (Sign × List Char)      -- exponent: sign and decimal digits
deriving Repr

def fracChars : Option (List Char) → List Char
  | none => []
  | some f => '.' :: f

def expChars (expCh : Char) : Option (Sign × List Char) → List Char
  | none => []
  | some (sg, ds) => expCh :: (sg.chars ++ ds)

/-- the text of a spelling -/
def Sci.render (pre : List Char) (expCh : Char) (s : Sci) : List Char :=
  s.sign.chars ++ (pre ++ (s.ip ++ (fracChars s.fp ++ expChars expCh s.ex)))

/-- digits come from the base's alphabet; every group that is present is non-empty, except that
the integer part may be empty when a fraction follows -/
structure Sci.WF (base : Nat) (s : Sci) : Prop where
  ip_digits : ∀ c ∈ s.ip, IsDigit base c
  fp_digits : ∀ f, s.fp = some f → f ≠ [] ∧ ∀ c ∈ f, IsDigit base c
  ip_or_fp : s.fp = none → s.ip ≠ []
  ex_digits : ∀ sg ds, s.ex = some (sg, ds) → ds ≠ [] ∧ ∀ c ∈ ds, IsDigit 10 c

def Sci.expVal (s : Sci) : Int :=
  match s.ex with
  | none => 0
  | some (sg, ds) => if sg.isNeg then -(intVal 10 ds : Int) else (intVal 10 ds : Int)

/-- the number a spelling denotes: digits in `base`, exponent scaling by powers of `b` -/
def Sci.value (base b : Nat) (s : Sci) : Rat :=
  let mag : Rat := ((intVal base s.ip : Nat) + fracVal base (s.fp.getD [])) * (b : Rat) ^ s.expVal
  if s.sign.isNeg then -mag else mag

/-- the spelling denotes a negative zero -/
def Sci.isNegZero (base b : Nat) (s : Sci) : Bool := s.sign.isNeg && s.value base b == 0

/-- `digits(m, e, b)` denotes `m · b^e` (undefined for `0^negative`) -/
def digitsValue (m e b : Int) : Rat := (m : Rat) * (b : Rat) ^ e

/-- `rational(p, q)` denotes `p / q` (undefined for `q = 0`) -/
def rationalValue (p q : Int) : Rat := (p : Rat) / (q : Rat)

/-! ### decimal float tokens of Python source -/

/-- a digit group as Python writes it: each digit may be preceded by one `_` (the flag), except
the first of the group -/
abbrev Group := List (Bool × Char)

def Group.digits (g : Group) : List Char := g.map (·.2)

def Group.render : Group → List Char
  | [] => []
  | (u, c) :: g => (if u then ['_', c] else [c]) ++ Group.render g

structure Group.WF (g : Group) : Prop where
  digits : ∀ uc ∈ g, IsDigit 10 uc.2
  head : ∀ uc, g.head? = some uc → uc.1 = false

/-- `[digitpart] ["." [digitpart]] [("e"|"E") ["+"|"-"] digitpart]` -/
structure PyFloat where
  ip : Group
  dot : Bool
  fp : Group
  ex : Option (Sign × Group)

def PyFloat.render (E : Char) (t : PyFloat) : List Char :=
  t.ip.render ++ ((if t.dot then '.' :: t.fp.render else []) ++
    (match t.ex with | none => [] | some (sg, g) => E :: (sg.chars ++ g.render)))

/-- a float token: there is a digit before or after the point, and a point or an exponent -/
structure PyFloat.WF (t : PyFloat) : Prop where
  ip_wf : t.ip.WF
  fp_wf : t.fp.WF
  some_digits : t.ip ≠ [] ∨ t.fp ≠ []
  no_dot_no_fp : t.dot = false → t.fp = []
  is_float : t.dot = true ∨ t.ex.isSome = true
  ex_wf : ∀ sg g, t.ex = some (sg, g) → g ≠ [] ∧ g.WF

def PyFloat.expVal (t : PyFloat) : Int :=
  match t.ex with
  | none => 0
  | some (sg, g) => if sg.isNeg then -(intVal 10 g.digits : Int) else (intVal 10 g.digits : Int)

/-- the number a float token denotes: the separators mean nothing -/
def PyFloat.value (t : PyFloat) : Rat :=
  ((intVal 10 t.ip.digits : Nat) + fracVal 10 t.fp.digits) * (10 : Rat) ^ t.expVal

end Fpy.Spec.Lit
