/-
Specification of rounding a non-negative RATIONAL magnitude `N / D` (in units) to multiples of `2^K` units, in plain
arithmetic: `N` is compared with the multiples of `G = D · 2^K` and with the midpoints between them.  It is
`Spec.roundQuot` with an arbitrary spacing `G` in place of a power of two.
-/
import Fpy.Spec.Rounding
namespace Fpy.Spec
open Fpy

/-- the multiple of `G` (as a quotient) that mode `rm` prescribes for a magnitude of `c` with sign `s` -/
def roundQuotG (rm : RM) (s : Bool) (c G : Nat) : Nat :=
  let q := c / G
  let r := c % G
  if r = 0 then q else
  match rm with
  | .rtz => q
  | .raz => q + 1
  | .rtp => if s then q else q + 1
  | .rtn => if s then q + 1 else q
  | .rte => if q % 2 = 0 then q else q + 1
  | .rto => if q % 2 = 1 then q else q + 1
  | .rne => if 2 * r < G then q else if 2 * r > G then q + 1 else (if q % 2 = 0 then q else q + 1)
  | .rna => if 2 * r < G then q else q + 1

/-- on a power-of-two spacing it is `roundQuot` -/
theorem roundQuotG_pow (rm : RM) (s : Bool) (c k : Nat) : roundQuotG rm s c (2 ^ k) = roundQuot rm s c k := rfl

end Fpy.Spec
