/-
Specification for C16: the published bit layouts, written as first-principles decoders with plain
`/`, `%`, `+` on the fields (no shifts/masks/ORs, no reference to the code's `_ext_to_mpb_fmt`,
`expmin`, ordinals …), and what "the same value" / "smaller value" mean for `(s, exp, c)` triples.
-/
import Fpy.Model.Num.Ctx
namespace Fpy.Spec
open Fpy

/-! ### values of `(s, exp, c)` triples, compared exactly on a common scale -/

/-- magnitude of `x` counted in units of `2^m` (exact when `m ≤ x.exp`) -/
def mag (x : RF) (m : Int) : Nat := x.c * 2 ^ (x.exp - m).toNat

/-- the real number `x` counted in units of `2^m` (exact when `m ≤ x.exp`) -/
def units (x : RF) (m : Int) : Int := if x.s then -(mag x m : Int) else (mag x m : Int)

/-- `x` and `y` denote the same real number -/
def sameValue (x y : RF) : Prop := units x (min x.exp y.exp) = units y (min x.exp y.exp)

/-- `x` denotes a smaller real number than `y` -/
def ltValue (x y : RF) : Prop := units x (min x.exp y.exp) < units y (min x.exp y.exp)

/-- same real number and same sign bit (so `+0` and `-0` are told apart) -/
def same (x y : RF) : Prop := sameValue x y ∧ x.s = y.s

/-- observational equality of `Float`s: NaNs are all alike (payload and sign are not part of the
value), infinities by sign, finite values by `same` -/
def sameFV : FV → FV → Prop
  | .nan _, .nan _ => True
  | .inf s, .inf t => s = t
  | .fin x, .fin y => same x y
  | _, _ => False

/-! ### the layouts -/

/-- two's complement: the pattern `b` of `nbits` bits denotes the integer `b` (or `b - 2^nbits` when
signed and the top bit is set), times `2^scale`. -/
def twosLayout (signed : Bool) (scale : Int) (nbits b : Nat) : FV :=
  let k : Int := if signed && decide (b ≥ 2 ^ (nbits - 1)) then (b : Int) - (2 ^ nbits : Nat) else (b : Int)
  .fin ⟨decide (k < 0), scale, k.natAbs⟩

/-- sign-magnitude: top bit is the sign, the other `nbits - 1` bits the magnitude, times `2^scale`. -/
def smLayout (scale : Int) (nbits b : Nat) : FV :=
  .fin ⟨decide (b ≥ 2 ^ (nbits - 1)), scale, if b ≥ 2 ^ (nbits - 1) then b - 2 ^ (nbits - 1) else b⟩

/-- exponent-only: all ones is NaN, otherwise `2^(b - bias)` with `bias = 2^(nbits-1) - 1 - eoffset`. -/
def expLayout (nbits : Nat) (eoff : Int) (b : Nat) : FV :=
  if b = 2 ^ nbits - 1 then .nan false
  else .fin ⟨false, (b : Int) - (((2 ^ (nbits - 1) - 1 : Nat) : Int) - eoff), 1⟩

/-- exponent bias of an `es`-bit exponent field -/
def efBias (es : Nat) : Int := if es = 0 then 0 else ((2 ^ (es - 1) - 1 : Nat) : Int)

/-- sign | biased exponent (`es` bits) | mantissa (`m = nbits - es - 1` bits), with the special codes of
each NaN kind:
* IEEE: the all-ones exponent is special (mantissa 0 is ±∞ when infinities are on, the rest NaN);
* MAX_VAL: the all-ones magnitude is NaN, the one below it ±∞ when infinities are on;
* NEG_ZERO / NONE: the all-ones magnitude is ±∞ when infinities are on; NEG_ZERO: `1|0…0` is NaN.
Everything else is `(-1)^S · M · 2^(1 - bias + eoff - m)` for `E = 0` (subnormal) and
`(-1)^S · (2^m + M) · 2^(E - bias + eoff - m)` otherwise. -/
def efLayout (es nbits : Nat) (inf : Bool) (kind : NanKind) (eoff : Int) (b : Nat) : FV :=
  let m := nbits - es - 1
  let S := b / 2 ^ (nbits - 1)
  let E := b / 2 ^ m % 2 ^ es
  let M := b % 2 ^ m
  let magn := b % 2 ^ (nbits - 1)
  let top := 2 ^ (nbits - 1) - 1
  let s : Bool := decide (S = 1)
  let number : FV :=
    if E = 0 then .fin ⟨s, 1 - efBias es + eoff - m, M⟩
    else .fin ⟨s, (E : Int) - efBias es + eoff - m, 2 ^ m + M⟩
  match kind with
  | .ieee =>
    if E = 2 ^ es - 1 then (if inf && decide (M = 0) then .inf s else .nan s) else number
  | .maxVal =>
    if magn = top then .nan s
    else if inf && decide (magn + 1 = top) then .inf s
    else number
  | .negZero =>
    if inf && decide (magn = top) then .inf s
    else if magn = 0 ∧ S = 1 then .nan s
    else number
  | .none =>
    if inf && decide (magn = top) then .inf s else number

end Fpy.Spec
