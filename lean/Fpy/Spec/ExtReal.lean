/-
Specification for property C05: the extended reals with the IEEE 754 rules for
infinities and NaN, written as plain tables over `Rat` (no encodings, no signs of zero).
This is what "the same operation on the operands' exact values" means.
-/
namespace Fpy.Spec

/-- an extended-real value: NaN, +∞, −∞ or a rational -/
inductive ExtVal
  | nan
  | pinf
  | ninf
  | fin (q : Rat)
deriving DecidableEq, Repr, Inhabited

namespace ExtVal

/-- the infinity with sign bit `s` -/
def ofInf (s : Bool) : ExtVal := if s then ninf else pinf

def neg : ExtVal → ExtVal
  | nan => nan | pinf => ninf | ninf => pinf | fin q => fin (-q)

def abs : ExtVal → ExtVal
  | nan => nan | pinf => pinf | ninf => pinf | fin q => fin q.abs

/-- `∞ + (−∞)` is NaN; an infinity absorbs a finite addend -/
def add : ExtVal → ExtVal → ExtVal
  | nan, _ => nan
  | _, nan => nan
  | pinf, ninf => nan
  | ninf, pinf => nan
  | pinf, _ => pinf
  | _, pinf => pinf
  | ninf, _ => ninf
  | _, ninf => ninf
  | fin a, fin b => fin (a + b)

def sub (a b : ExtVal) : ExtVal := add a (neg b)

/-- is the value negative? (for the sign of an infinite product) -/
def isNeg : ExtVal → Bool
  | ninf => true | fin q => decide (q < 0) | _ => false

def isZero : ExtVal → Bool
  | fin q => decide (q = 0) | _ => false

def isInf : ExtVal → Bool
  | pinf => true | ninf => true | _ => false

/-- `0 × ∞` is NaN; otherwise an infinite product has the product sign -/
def mul : ExtVal → ExtVal → ExtVal
  | nan, _ => nan
  | _, nan => nan
  | fin a, fin b => fin (a * b)
  | a, b => if a.isZero || b.isZero then nan else ofInf (a.isNeg != b.isNeg)

/-- integer power, `x^0 = 1` for every `x` (IEEE `pown`) -/
def pow (a : ExtVal) (k : Nat) : ExtVal :=
  if k = 0 then fin 1 else
  match a with
  | nan => nan
  | pinf => pinf
  | ninf => if k % 2 = 1 then ninf else pinf
  | fin q => fin (q ^ k)

/-- three-way comparison of rationals -/
def cmpQ (a b : Rat) : Ordering := if a < b then .lt else if b < a then .gt else .eq

/-- ordering of the extended reals; NaN is unordered -/
def cmp : ExtVal → ExtVal → Option Ordering
  | nan, _ => none
  | _, nan => none
  | pinf, pinf => some .eq
  | ninf, ninf => some .eq
  | pinf, _ => some .gt
  | _, pinf => some .lt
  | ninf, _ => some .lt
  | _, ninf => some .gt
  | fin a, fin b => some (cmpQ a b)

end ExtVal
end Fpy.Spec
