/-
Specification of rounding, written from the names of the modes in plain
arithmetic (no bit tests, no `to_direction` table).  Magnitudes are counted in
units of the operand's own LSB: the operand is `c` units, the grid spacing is
`2^k` units.
-/
import Fpy.Model.Num.Round
namespace Fpy.Spec
open Fpy

/-- The multiple of `2^k` (as a quotient) that mode `rm` prescribes for a magnitude of `c` units
with sign `s`.  `q = c / 2^k` is the lower neighbour, `q + 1` the upper one. -/
def roundQuot (rm : RM) (s : Bool) (c k : Nat) : Nat :=
  let q := c / 2 ^ k
  let r := c % 2 ^ k
  if r = 0 then q else
  match rm with
  | .rtz => q
  | .raz => q + 1
  | .rtp => if s then q else q + 1
  | .rtn => if s then q + 1 else q
  | .rte => if q % 2 = 0 then q else q + 1
  | .rto => if q % 2 = 1 then q else q + 1
  | .rne => if 2 * r < 2 ^ k then q else if 2 * r > 2 ^ k then q + 1 else (if q % 2 = 0 then q else q + 1)
  | .rna => if 2 * r < 2 ^ k then q else q + 1

/-- the prescribed result is one of the two neighbours -/
theorem roundQuot_neighbour (rm : RM) (s : Bool) (c k : Nat) :
    roundQuot rm s c k = c / 2 ^ k ∨ roundQuot rm s c k = c / 2 ^ k + 1 := by
  unfold roundQuot
  cases rm <;> simp only [] <;> split <;> (try split) <;> (try split) <;> (try split) <;> simp

/-- a grid point is returned unchanged -/
theorem roundQuot_exact (rm : RM) (s : Bool) (c k : Nat) (h : c % 2 ^ k = 0) :
    roundQuot rm s c k = c / 2 ^ k := by
  unfold roundQuot; simp [h]

/-- nearest modes return a neighbour at distance at most half the spacing -/
theorem roundQuot_nearest (rm : RM) (hrm : rm = .rne ∨ rm = .rna) (s : Bool) (c k : Nat) :
    2 * (roundQuot rm s c k * 2 ^ k) ≤ 2 * c + 2 ^ k ∧ 2 * c ≤ 2 * (roundQuot rm s c k * 2 ^ k) + 2 ^ k := by
  have hd := Nat.div_add_mod c (2 ^ k)
  have hm : c % 2 ^ k < 2 ^ k := Nat.mod_lt _ (Nat.pow_pos (by decide))
  generalize hq : c / 2 ^ k = q at *
  generalize hr : c % 2 ^ k = r at *
  generalize hG : 2 ^ k = G at *
  have e1 : (q + 1) * G = q * G + G := by rw [Nat.add_mul]; simp
  have e2 : G * q = q * G := Nat.mul_comm _ _
  rcases hrm with rfl | rfl <;> unfold roundQuot <;> simp only [hq, hr, hG] <;>
    (split; · omega) <;> (split; · omega) <;> (try (split; · omega)) <;> (try split) <;> omega

/-- directed modes: toward zero never exceeds the magnitude, away never falls short of it -/
theorem roundQuot_rtz (s : Bool) (c k : Nat) : roundQuot .rtz s c k * 2 ^ k ≤ c := by
  unfold roundQuot; simp only []; split <;> exact Nat.div_mul_le_self c (2 ^ k)

theorem roundQuot_raz (s : Bool) (c k : Nat) : c ≤ roundQuot .raz s c k * 2 ^ k := by
  have hd := Nat.div_add_mod c (2 ^ k)
  have hm : c % 2 ^ k < 2 ^ k := Nat.mod_lt _ (Nat.pow_pos (by decide))
  generalize hq : c / 2 ^ k = q at *
  generalize hr : c % 2 ^ k = r at *
  generalize hG : 2 ^ k = G at *
  have e1 : (q + 1) * G = q * G + G := by rw [Nat.add_mul]; simp
  have e2 : G * q = q * G := Nat.mul_comm _ _
  unfold roundQuot; simp only [hq, hr, hG]; split <;> omega

end Fpy.Spec
