/-
Specification of what an edit log *means* (independent of the forwarding arithmetic):
`applyEdits fresh E t` is the program obtained from `t` by replacing, for every edit `e ∈ E`
(given in the OLD program's terms), the run `[e.index, e.index + e.removed)` of the block at
`e.blockPath` by the statements `fresh e`.  Defined top-down over the tree, looking only at the
old position of each statement:

  new block = for each old index i:  (the fresh runs of all edits of this block that start at i)
                                      ++ (nothing, if i lies in a replaced run;
                                          otherwise statement i, its own blocks treated the same way)
              ++ the fresh runs of the edits that start at the end of the block.

A statement of the result *descends from* the old statement at `p` if it is the image of that very
statement (same tag; only its nested blocks may have been edited) or one of the fresh statements of
the edit whose run contains `p`.
-/
import Fpy.Model.Cursor
namespace Fpy.Cursor.Spec
open Fpy.Cursor

/-- `e` is an edit of block `here` whose run contains index `i` -/
def covers (e : Edit) (here : BlockPath) (i : Nat) : Bool :=
  e.blockPath == here && e.index ≤ i && i < e.index + e.removed

def coveredBy (E : List Edit) (here : BlockPath) (i : Nat) : Bool := E.any (covers · here i)

/-- the fresh statements of all edits of block `here` that start at old index `i`, in log order -/
def emitAt (fresh : Edit → List Stmt) (E : List Edit) (here : BlockPath) (i : Nat) : List Stmt :=
  E.flatMap fun e => if e.blockPath = here ∧ e.index = i then fresh e else []

mutual
def applyStmt (fresh : Edit → List Stmt) (E : List Edit) : BlockPath → Nat → Stmt → Stmt
  | _, _, .leaf t => .leaf t
  | here, i, .one t b => .one t (applyBlock fresh E (⟨i, .body⟩ :: here) b 0)
  | here, i, .two t a b =>
      .two t (applyBlock fresh E (⟨i, .ift⟩ :: here) a 0) (applyBlock fresh E (⟨i, .iff⟩ :: here) b 0)
def applyBlock (fresh : Edit → List Stmt) (E : List Edit) : BlockPath → Block → Nat → Block
  | here, [], i => emitAt fresh E here i
  | here, s :: r, i =>
      emitAt fresh E here i
        ++ ((if coveredBy E here i then [] else [applyStmt fresh E here i s])
        ++ applyBlock fresh E here r (i + 1))
end

def applyEdits (fresh : Edit → List Stmt) (E : List Edit) (t : Block) : Block := applyBlock fresh E [] t 0

/-- `p` lies at or beneath a statement some edit replaced -/
def touched (E : List Edit) (p : StmtPath) : Bool :=
  E.any fun e => beneathStmt e.blockPath e.index (e.index + e.removed) p

/-- `s'` (a statement of the result) descends from the old statement `s` at `p` -/
def Descends (fresh : Edit → List Stmt) (E : List Edit) (p : StmtPath) (s s' : Stmt) : Prop :=
  (touched E p = false ∧ s' = applyStmt fresh E p.parent p.index s) ∨
  (∃ e ∈ E, covers e p.parent p.index = true ∧ s' ∈ fresh e)

/-! ### a log that meets the specification; chains of passes -/

/-- the log is one the code accepts (`EditLog.__post_init__` passes) and its result program really
is the source with every recorded run replaced by the `inserted` statements `fresh e` -/
structure SpecLog (fresh : Edit → List Stmt) (L : EditLog) : Prop where
  check : L.check = .ok ()
  fresh_len : ∀ e ∈ L.edits, (fresh e).length = e.inserted
  result_eq : L.result.body = applyEdits fresh L.edits L.source.body

/-- a cursor that passed its constructor's validation against program `t` -/
def ValidIn (t : Block) : Cursor → Prop
  | .stmt _ p => ∃ s, resolveStmt t p = .ok s
  | .region _ bp _ b => ∃ blk, resolveBlock t bp = .ok blk ∧ b ≤ blk.length
  | .expr _ _ => False

abbrev Pass := EditLog × (Edit → List Stmt)

/-- the newest program of a chain (`steps` newest first) -/
def top (root : Prog) : List Pass → Prog
  | [] => root
  | (L, _) :: _ => L.result

/-- the `parent` chain of `Function`s as `Function.forward` walks it: newest first, the root last -/
def mkChain (root : Prog) : List Pass → List (Prog × Option EditLog)
  | [] => [(root, none)]
  | (L, _) :: rest => (L.result, some L) :: mkChain root rest

/-- every pass produced its program from the previous one, by a log that meets the specification;
the cursor's program (the root) is not one of the later ones -/
def Linked (root : Prog) : List Pass → Prop
  | [] => True
  | (L, f) :: rest => SpecLog f L ∧ L.source = top root rest ∧ L.result.pid ≠ root.pid ∧ Linked root rest

/-- `s'` is reached from `s` by descending once per pass (`steps` newest first) -/
inductive Lineage : List Pass → Stmt → Stmt → Prop where
  | nil (s : Stmt) : Lineage [] s s
  | step {L : EditLog} {f : Edit → List Stmt} {rest : List Pass} {s s1 s2 : Stmt} :
      Lineage rest s s1 →
      (∃ p, resolveStmt L.source.body p = .ok s1 ∧ Descends f L.edits p s1 s2) →
      Lineage ((L, f) :: rest) s s2

end Fpy.Cursor.Spec
