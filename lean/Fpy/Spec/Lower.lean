/-
What "the same result" means for C10: the value class and the denoted number (zeros keep their sign, the
sign of a NaN is not observed), plus the `inexact` / `overflow` flags where both sides carry them.
-/
import Fpy.Spec.AbsFmt
import Fpy.Model.Num.Ctx
namespace Fpy.C10
open Fpy

/-- same class; same sign and same number for finite values (the raw `(exp, c)` encoding may differ) -/
def sameFV : FV → FV → Prop
  | .nan _, .nan _ => True
  | .inf s, .inf t => s = t
  | .fin x, .fin y => x.s = y.s ∧ x.eqV y
  | _, _ => False

instance (a b : FV) : Decidable (sameFV a b) := by
  cases a <;> cases b <;> unfold sameFV <;> exact inferInstance

/-- both raise the same error, or both return the same value with the same `inexact` and `overflow` -/
def obsEq (a b : Except Err Res) : Prop :=
  match a, b with
  | .ok r, .ok r' => sameFV r.v r'.v ∧ r.fl.inexact = r'.fl.inexact ∧ r.fl.overflow = r'.fl.overflow
  | .error e, .error e' => e = e'
  | _, _ => False

/-- the same, values only -/
def obsEqV (a b : Except Err FV) : Prop :=
  match a, b with
  | .ok v, .ok v' => sameFV v v'
  | .error e, .error e' => e = e'
  | _, _ => False

/-- decidable equality of results, so that concrete instances can be checked by evaluation -/
instance instDecEqExcept {ε α : Type} [DecidableEq ε] [DecidableEq α] : DecidableEq (Except ε α) := fun a b =>
  match a, b with
  | .ok x, .ok y => if h : x = y then isTrue (by rw [h]) else isFalse (by intro h'; injection h' with h''; exact h h'')
  | .error x, .error y => if h : x = y then isTrue (by rw [h]) else isFalse (by intro h'; injection h' with h''; exact h h'')
  | .ok _, .error _ => isFalse (by intro h; cases h)
  | .error _, .ok _ => isFalse (by intro h; cases h)

end Fpy.C10
