/-
Specification side of C11: the hypotheses on the C++ implementation and on the hardware, stated as
structures (never as axioms), what a bound handed to `choose_storage_scalar` admits, and what the
emitted expression computes for a dispatched signature.
-/
import Fpy.Model.Storage
namespace Fpy.C11
open Fpy AbsFmt

/-- what a bound handed to `choose_storage_scalar` admits: `None` (a boolean's bound) and the empty
`SetFormat` admit no number -/
def γB : Bound → FV → Prop
  | .fmt a _ => γ a
  | .real => fun _ => True
  | _ => fun _ => False

/-- C++ conversions ([conv.double], [conv.integral], [conv.fpint]): a value the destination type can
represent converts to itself.  A hypothesis on the C++ implementation, carried as a structure. -/
structure CastSem where
  cast : MachTy → FV → FV
  exact : ∀ T v, values T v → cast T v = v

/-- the floating-point machine type of a hardware context -/
def fpTy (dbl : Bool) : MachTy := if dbl then .f64 else .f32

/-- the nodes whose C++ spelling a toolchain rounds correctly in every `fesetround` mode -/
def crNodes : List Node := [.add, .sub, .mul, .div, .sqrt, .fma]

/-- The hypothesis of `dispatch_contract`, as data: what the machine computes, and that it is the
IEEE-754 correctly rounded operation in the current rounding mode — i.e. the value the interpreter's
`opEval` defines under the corresponding `IEEEContext` (C02 proves that one is the correct rounding of
the exact result).  NOT an axiom: a theorem that takes a `Hardware` assumes exactly this. -/
structure Hardware where
  op : Node → Bool → HwRM → List FV → FV
  correct : ∀ (nd : Node) (dbl : Bool) (rm : HwRM) (args : List FV) (r : FV),
    nd ∈ crNodes → args.length = nd.arity → (∀ a ∈ args, values (fpTy dbl) a) →
    opEval (NativeCtx.fp dbl rm).toCtx nd.toOp (args.map NV.fv) = .ok (.fv r) →
    sameValue (op nd dbl rm args) r

/-- what the emitted expression computes for a signature of a hardware context: every operand is
converted to its slot type, then the machine operation runs in the signature's type and mode -/
def machEval (hw : Hardware) (cs : CastSem) (nd : Node) (s : Sig) (args : List FV) : Option FV :=
  match s.outCtx with
  | .fp dbl rm => some (hw.op nd dbl rm (List.zipWith cs.cast s.inTys args))
  | _ => none

/-- operand `i` is a value of the storage type `tys[i]` -/
inductive ValuesOf : List MachTy → List FV → Prop
  | nil : ValuesOf [] []
  | cons {t : MachTy} {v : FV} {ts : List MachTy} {vs : List FV} : values t v → ValuesOf ts vs → ValuesOf (t :: ts) (v :: vs)


theorem sameValue_refl (v : FV) : sameValue v v := by
  cases v <;> simp [sameValue, RF.eqV]

/-- the hypothesis `Hardware.correct` is satisfiable: the machine that computes what the model computes -/
def Hardware.model : Hardware where
  op nd dbl rm args :=
    match opEval (NativeCtx.fp dbl rm).toCtx nd.toOp (args.map NV.fv) with
    | .ok (.fv r) => r
    | _ => .nan false
  correct := by
    intro nd dbl rm args r _ _ _ hr
    simp only [hr]
    exact sameValue_refl r

/-- a conversion semantics exists (the identity) -/
def CastSem.id : CastSem := ⟨fun _ v => v, fun _ _ _ => rfl⟩

end Fpy.C11
