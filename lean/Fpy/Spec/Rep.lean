/-
Specification of "representable" and of "correct rounding" at the level of VALUES (rationals),
written from the published description of the number formats, independent of the model's
record operations: only `Rat`, integer powers of two, `floor`/`ceil`, and the NAMES of the
rounding modes are used.

* a *grid* of spacing `2^u` is the set of integer multiples of `2^u`;
* a `p`-digit float is `m · 2^e` with `|m| < 2^p` (unbounded exponent);
* a fixed-point number with least digit position `n + 1` is a multiple of `2^(n+1)`;
* an IEEE-style float with subnormals is a `p`-digit float that is also on the grid of the
  smallest subnormal.

`roundVal rm u q` is the textbook rounding of the real `q` to the grid of spacing `2^u`:
the two candidates are `⌊q / 2^u⌋ · 2^u` and `⌈q / 2^u⌉ · 2^u`, the mode picks one.
-/
import Fpy.Model.Num.Ctx
namespace Fpy.Spec
open Fpy

/-- `q` is an integer multiple of `2^u` -/
def OnGrid (u : Int) (q : Rat) : Prop := ∃ m : Int, q = (m : Rat) * (2 : Rat) ^ u

/-- `q` is a binary float with at most `p` significant digits (any exponent) -/
def RepFloat (p : Nat) (q : Rat) : Prop :=
  q = 0 ∨ ∃ (m : Int) (e : Int), q = (m : Rat) * (2 : Rat) ^ e ∧ m.natAbs < 2 ^ p

/-- `q` is a fixed-point number whose first unrepresentable digit is at position `n` -/
def RepFixed (n : Int) (q : Rat) : Prop := OnGrid (n + 1) q

/-- `p`-digit float with gradual underflow: no digit at or below position `nmin` -/
def RepFloatSub (p : Nat) (nmin : Int) (q : Rat) : Prop := RepFloat p q ∧ OnGrid (nmin + 1) q

/-- membership in the unbounded-range float format with `p` digits and, when `minN = some nmin`,
no digit at or below position `nmin` (gradual underflow) -/
def RepIn (p : Nat) (minN : Option Int) (q : Rat) : Prop :=
  RepFloat p q ∧ ∀ nmin, minN = some nmin → OnGrid (nmin + 1) q

/-- lower / upper neighbour of `q` on the grid of spacing `2^u` -/
def gridLo (u : Int) (q : Rat) : Rat := ((q / (2 : Rat) ^ u).floor : Rat) * (2 : Rat) ^ u
def gridHi (u : Int) (q : Rat) : Rat := ((q / (2 : Rat) ^ u).ceil : Rat) * (2 : Rat) ^ u

/-- The grid point (as an integer multiple of `2^u`) that mode `rm` prescribes for the real `q`:
`lo = ⌊q/2^u⌋`, `hi = ⌈q/2^u⌉`; on the grid (`lo = hi`) the number itself; otherwise the mode's
name decides: toward −∞ / +∞ / zero / away; nearest with ties to even / away; to even / to odd. -/
def roundInt (rm : RM) (u : Int) (q : Rat) : Int :=
  let t := q / (2 : Rat) ^ u
  let lo := t.floor
  let hi := t.ceil
  if lo = hi then lo else
  match rm with
  | .rtn => lo
  | .rtp => hi
  | .rtz => if 0 ≤ q then lo else hi
  | .raz => if 0 ≤ q then hi else lo
  | .rte => if lo % 2 = 0 then lo else hi
  | .rto => if lo % 2 = 0 then hi else lo
  | .rne => if t - lo < hi - t then lo else if hi - t < t - lo then hi
            else (if lo % 2 = 0 then lo else hi)
  | .rna => if t - lo < hi - t then lo else if hi - t < t - lo then hi
            else (if 0 ≤ q then hi else lo)

/-- correct rounding of the real `q` to the grid of spacing `2^u` under mode `rm` -/
def roundVal (rm : RM) (u : Int) (q : Rat) : Rat := (roundInt rm u q : Rat) * (2 : Rat) ^ u

/-- `Spec.roundQuot` for an arbitrary positive divisor `D` (the grid is the multiples of `D`):
the multiple of `D` that mode `rm` prescribes for a magnitude of `N` with sign `s`. -/
def roundDiv (rm : RM) (s : Bool) (N D : Nat) : Nat :=
  let q := N / D
  let r := N % D
  if r = 0 then q else
  match rm with
  | .rtz => q
  | .raz => q + 1
  | .rtp => if s then q else q + 1
  | .rtn => if s then q + 1 else q
  | .rte => if q % 2 = 0 then q else q + 1
  | .rto => if q % 2 = 1 then q else q + 1
  | .rne => if 2 * r < D then q else if 2 * r > D then q + 1 else (if q % 2 = 0 then q else q + 1)
  | .rna => if 2 * r < D then q else q + 1

/-! ### membership in the format of a context

Written from the description of the families: which finite rationals the format contains, and
whether it has a negative zero, infinities, NaN.  The bounds of the bounded families are the
VALUES of the context's `posMax`/`negMax`. -/

/-- the finite members of each family's format, as a set of rationals (the exponential family holds
the powers of two `2^e`, `emin ≤ e ≤ emax`, and nothing else finite — no zero) -/
def CtxFinMember : Ctx → Rat → Prop
  | .real, _ => True
  | .mp p _ _ _, q => RepFloat p q
  | .mps p emin _ _ _, q => RepFloatSub p (emin - p) q
  | .mpb c, q => RepFloatSub c.p c.nmin q ∧ c.negMax.val ≤ q ∧ q ≤ c.posMax.val
  | .efloat c, q => RepFloatSub c.mpb.p c.mpb.nmin q ∧ c.mpb.negMax.val ≤ q ∧ q ≤ c.mpb.posMax.val
  | .mpfix nmin _ _ _ _, q => RepFixed nmin q
  | .mpbfix c, q => RepFixed c.nmin q ∧ c.negMax.val ≤ q ∧ q ≤ c.posMax.val
  | .exp c, q => ∃ e : Int, c.emin ≤ e ∧ e ≤ c.emax ∧ q = (2 : Rat) ^ e

def hasNegZero : Ctx → Bool
  | .mpfix _ _ _ nz _ => nz
  | .mpbfix c => c.negZero
  | .efloat c => c.kind != .negZero
  | .exp _ => false
  | _ => true

def hasInf : Ctx → Bool
  | .real => true
  | .mp _ _ _ o => o.enableInf
  | .mps _ _ _ _ o => o.enableInf
  | .mpb c => c.o.enableInf
  | .efloat c => c.inf
  | .mpfix _ _ _ _ o => o.enableInf
  | .mpbfix c => c.o.enableInf
  | .exp _ => false

def hasNan : Ctx → Bool
  | .real => true
  | .mp _ _ _ o => o.enableNan
  | .mps _ _ _ _ o => o.enableNan
  | .mpb c => c.o.enableNan
  | .efloat c => c.kind != .none
  | .mpfix _ _ _ _ o => o.enableNan
  | .mpbfix c => c.o.enableNan
  | .exp _ => true

/-- the user-configured substitutes for a disabled infinity / NaN -/
def infSub : Ctx → Option FV
  | .real => none
  | .mp _ _ _ o => o.infValue
  | .mps _ _ _ _ o => o.infValue
  | .mpb c => c.o.infValue
  | .efloat c => c.infValue
  | .mpfix _ _ _ _ o => o.infValue
  | .mpbfix c => c.o.infValue
  | .exp c => c.infValue

def nanSub : Ctx → Option FV
  | .real => none
  | .mp _ _ _ o => o.nanValue
  | .mps _ _ _ _ o => o.nanValue
  | .mpb c => c.o.nanValue
  | .efloat c => c.nanValue
  | .mpfix _ _ _ _ o => o.nanValue
  | .mpbfix c => c.o.nanValue
  | .exp _ => none

/-- `v` is a member of the format of context `C`: a finite member (−0 only where the format has
it), an infinity only if the format has infinities, a NaN only if it has NaN -/
def CtxMember (C : Ctx) : FV → Prop
  | .fin y => CtxFinMember C y.val ∧ (y.c = 0 → y.s = true → hasNegZero C = true)
  | .inf _ => hasInf C = true
  | .nan _ => hasNan C = true

/-- `v` is the configured substitute for a special value the format lacks (possibly re-signed) -/
def CtxSubstitute (C : Ctx) (v : FV) : Prop :=
  (hasInf C = false ∧ ∃ w, infSub C = some w ∧ (v = w ∨ ∃ s, v = w.withSign s)) ∨
  (hasNan C = false ∧ ∃ w, nanSub C = some w ∧ (v = w ∨ ∃ s, v = w.withSign s))

/-- well-formed parameters: at least one digit; for the bounded families the extreme values are
themselves finite members on either side of zero (and the largest value is not written `−0`) -/
def CtxWF : Ctx → Prop
  | .real => True
  | .mp p _ _ _ => 1 ≤ p
  | .mps p _ _ _ _ => 1 ≤ p
  | .mpb c => 1 ≤ c.p ∧ RepFloatSub c.p c.nmin c.posMax.val ∧ RepFloatSub c.p c.nmin c.negMax.val ∧
      c.negMax.val ≤ 0 ∧ 0 ≤ c.posMax.val
  | .efloat c => 1 ≤ c.mpb.p ∧ RepFloatSub c.mpb.p c.mpb.nmin c.mpb.posMax.val ∧
      RepFloatSub c.mpb.p c.mpb.nmin c.mpb.negMax.val ∧ c.mpb.negMax.val ≤ 0 ∧ 0 ≤ c.mpb.posMax.val ∧
      c.mpb.posMax.s = false
  | .mpfix _ _ _ _ _ => True
  | .mpbfix c => RepFixed c.nmin c.posMax.val ∧ RepFixed c.nmin c.negMax.val ∧
      c.negMax.val ≤ 0 ∧ 0 ≤ c.posMax.val ∧ c.posMax.s = false
  | .exp _ => True

end Fpy.Spec
