/-
IEEE 754 (§6.1, §6.3, §7.2, §7.3, §9.2) and C Annex F special-value tables, written on the CLASS of the
operands: NaN, ±∞, ±0, finite non-zero with its sign.  `none` = "not decided by the table": either the
finite arithmetic decides, or (sum of zeros of opposite signs) the sign is the one the property leaves
open under round-toward-negative.
-/
import Fpy.Model.Num.Float
namespace Fpy.Spec
open Fpy

/-- class and sign of an operand or result -/
inductive XV
  | nan
  | inf (s : Bool)
  | zero (s : Bool)
  | fin (s : Bool)
deriving DecidableEq, Repr

def XV.of : FV → XV
  | .nan _ => .nan
  | .inf s => .inf s
  | .fin x => if x.c = 0 then .zero x.s else .fin x.s

/-- addition (§6.1, §6.3, §7.2): NaN propagates, ∞ + (−∞) is invalid, ∞ absorbs, equal-signed zeros keep the sign -/
def addS : XV → XV → Option XV
  | .nan, _ => some .nan
  | _, .nan => some .nan
  | .inf s, .inf t => some (if s = t then .inf s else .nan)
  | .inf s, _ => some (.inf s)
  | _, .inf t => some (.inf t)
  | .zero s, .zero t => if s = t then some (.zero s) else none
  | _, _ => none

def negX : XV → XV
  | .nan => .nan | .inf s => .inf (!s) | .zero s => .zero (!s) | .fin s => .fin (!s)

def subS (a b : XV) : Option XV := addS a (negX b)

def signX : XV → Bool
  | .nan => false | .inf s => s | .zero s => s | .fin s => s

/-- multiplication (§6.1, §6.3, §7.2): 0 × ∞ invalid; sign is the XOR -/
def mulS : XV → XV → Option XV
  | .nan, _ => some .nan
  | _, .nan => some .nan
  | .inf s, .zero _ => some .nan
  | .zero _, .inf _ => some .nan
  | .inf s, b => some (.inf (s != signX b))
  | a, .inf t => some (.inf (signX a != t))
  | .zero s, b => some (.zero (s != signX b))
  | a, .zero t => some (.zero (signX a != t))
  | _, _ => none

/-- division (§6.1, §6.3, §7.2, §7.3): ∞/∞ and 0/0 invalid; x/0 is a signed infinity (divide by zero) -/
def divS : XV → XV → Option XV
  | .nan, _ => some .nan
  | _, .nan => some .nan
  | .inf _, .inf _ => some .nan
  | .inf s, b => some (.inf (s != signX b))
  | a, .inf t => some (.zero (signX a != t))
  | .zero _, .zero _ => some .nan
  | a, .zero t => some (.inf (signX a != t))
  | .zero s, b => some (.zero (s != signX b))
  | _, _ => none

/-- square root (§6.3, §7.2): −0 ↦ −0, negative ↦ invalid -/
def sqrtS : XV → Option XV
  | .nan => some .nan
  | .inf s => some (if s then .nan else .inf false)
  | .zero s => some (.zero s)
  | .fin s => if s then some .nan else none

/-- cube root (rootn(x, 3), §9.2): odd root keeps the sign -/
def cbrtS : XV → Option XV
  | .nan => some .nan
  | .inf s => some (.inf s)
  | .zero s => some (.zero s)
  | .fin _ => none

/-- hypot (§9.2): an infinite operand gives +∞ even if the other is NaN -/
def hypotS : XV → XV → Option XV
  | .inf _, _ => some (.inf false)
  | _, .inf _ => some (.inf false)
  | .nan, _ => some .nan
  | _, .nan => some .nan
  | .zero _, .zero _ => some (.zero false)
  | _, _ => none

/-- fmod / remainder (§5.3.1, §7.2; C F.10.7): x infinite or y zero invalid; y infinite returns x; a zero x stays -/
def remS : XV → XV → Option XV
  | .nan, _ => some .nan
  | _, .nan => some .nan
  | .inf _, _ => some .nan
  | _, .zero _ => some .nan
  | .zero s, _ => some (.zero s)
  | _, _ => none

end Fpy.Spec
