/-
Specification for C14 (abstract arithmetic of number formats): which `Float` values an
`AbstractFormat` denotes.  Written from the class docstring, in integer terms only.

A finite value is a triple `x = (-1)^s · c · 2^exp`.  To compare two such triples we scale
both to a common exponent `g` no larger than either exponent: `x.sc g = ±c · 2^(exp - g)`.
-/
import Fpy.Model.AbsFmt
namespace Fpy

namespace RF

/-- signed significand of `x` in units of `2^g` (meaningful when `g ≤ x.exp` or `x` is zero) -/
def sc (x : RF) (g : Int) : Int :=
  (if x.s then -1 else 1) * ((x.c : Int) * 2 ^ (x.exp - g).toNat)

/-- `x ≤ y` as numbers -/
def leV (x y : RF) : Prop := x.sc (min x.exp y.exp) ≤ y.sc (min x.exp y.exp)
/-- `x = y` as numbers (zeros of either sign are equal) -/
def eqV (x y : RF) : Prop := x.sc (min x.exp y.exp) = y.sc (min x.exp y.exp)

instance (x y : RF) : Decidable (leV x y) := by unfold leV; exact inferInstance
instance (x y : RF) : Decidable (eqV x y) := by unfold eqV; exact inferInstance

end RF

namespace Bnd

/-- `x ≤ b` for an upper bound `b` (`+inf` = unbounded; `-inf`/`nan` admit nothing) -/
def above (b : Bnd) (x : RF) : Prop :=
  match b with
  | fin p => x.leV p
  | inf s => s = false
  | nan => False

/-- `b ≤ x` for a lower bound `b` (`-inf` = unbounded; `+inf`/`nan` admit nothing) -/
def below (b : Bnd) (x : RF) : Prop :=
  match b with
  | fin n => n.leV x
  | inf s => s = true
  | nan => False

instance (b : Bnd) (x : RF) : Decidable (above b x) := by
  unfold above; cases b <;> exact inferInstance
instance (b : Bnd) (x : RF) : Decidable (below b x) := by
  unfold below; cases b <;> exact inferInstance

end Bnd

namespace AbsFmt

/-- `x` can be written `(-1)^s · m · 2^e` with `m < 2^prec` (if `prec` is finite) and
`e ≥ exp` (if `exp` is finite): the docstring's "maximum precision" and
"minimum unnormalized exponent". -/
def Writable (a : AbsFmt) (x : RF) : Prop :=
  ∃ w : RF, w.eqV x ∧ w.s = x.s ∧ (∀ p, a.prec = some p → w.c < 2 ^ p) ∧ (∀ E, a.exp = some E → E ≤ w.exp)

/-- membership of a finite value: `+0` always; `-0` iff `has_neg_zero`; a non-zero value iff it
is writable with the format's precision/exponent and lies between `neg_bound` and `pos_bound`. -/
def finMem (a : AbsFmt) (x : RF) : Prop :=
  if x.c = 0 then (x.s = true → a.negZero = true)
  else a.Writable x ∧ a.neg.below x ∧ a.pos.above x

/-- concretisation: the set of `Float` values denoted by an abstract format -/
def γ (a : AbsFmt) : FV → Prop
  | .fin x => a.finMem x
  | .inf false => a.posInf = true
  | .inf true => a.negInf = true
  | .nan _ => a.nan = true

/-- the convention the code states (and relies on): finite bounds straddle zero,
`pos_bound ≥ 0 ≥ neg_bound`; an unbounded side is `+inf` above, `-inf` below; and the
constructor's check `prec > 0`. -/
def WF (a : AbsFmt) : Prop :=
  (a.pos = .inf false ∨ ∃ p, a.pos = .fin p ∧ (p.c = 0 ∨ p.s = false)) ∧
  (a.neg = .inf true ∨ ∃ n, a.neg = .fin n ∧ (n.c = 0 ∨ n.s = true)) ∧
  a.prec ≠ some 0

/-- low digits beyond the precision -/
def dropPrec (p : Option Nat) (c : Nat) : Nat := match p with | none => 0 | some p => bitLength c - p
/-- digits below the exponent bound -/
def dropExp (E : Option Int) (e : Int) : Nat := match E with | none => 0 | some E => (E - e).toNat

/-- executable version of `Writable` for a non-zero `x`: dropping the `k` low digits that
exceed the precision / lie below the exponent bound must lose nothing. -/
def writableB (a : AbsFmt) (x : RF) : Bool :=
  x.c % 2 ^ (max (dropPrec a.prec x.c) (dropExp a.exp x.exp)) == 0

/-- executable membership (used by the driver's `member` operation) -/
def member (a : AbsFmt) : FV → Bool
  | .fin x =>
    if x.c = 0 then (!x.s || a.negZero)
    else a.writableB x && decide (a.neg.below x) && decide (a.pos.above x)
  | .inf false => a.posInf
  | .inf true => a.negInf
  | .nan _ => a.nan

/-! Definitions of the operators as they were before the repairs of F10 / F28 (kept only to state
what was wrong with them). -/

/-- `_is_contained_in` before F10 was repaired: the precision test was entered only when
`other.prec` AND `other.exp` were finite. -/
def leLegacy (a b : AbsFmt) : Bool :=
  if !specialsContainedIn a b then false
  else if expGt b.exp a.exp then false
  else if Bnd.lt b.pos a.pos then false
  else if Bnd.gt b.neg a.neg then false
  else match b.prec, b.exp with
    | some pb, some _ => precFits a pb
    | _, _ => true

/-- `__abs__` before F28 was repaired: `pos_bound` kept, `neg_bound` ignored. -/
def absLegacy (a : AbsFmt) : AbsFmt :=
  { prec := a.prec, exp := a.exp, pos := a.pos, neg := .fin (RF.ofInt 0),
    posInf := a.posInf || a.negInf, negInf := false, nan := a.nan, negZero := false }

end AbsFmt
end Fpy
